//! Model -> GraphQL text, canonical or with random legal trivia; records a token table.

use crate::choices::Choices;
use crate::model::*;

#[derive(Clone, Debug, PartialEq, Eq)]
pub struct Tok {
    pub text: String,
    /// 0-based line (LF, CRLF and lone CR all terminate a line, as in the spec)
    pub line: usize,
    /// column in Unicode scalar values
    pub col: usize,
    /// column in UTF-16 code units
    pub col16: usize,
    /// column in scalar values not counting a BOM on this line
    pub col_nobom: usize,
    pub byte: usize,
    /// true when a lone CR (not followed by LF) occurs before this token anywhere
    pub after_lone_cr: bool,
    /// true when this token lies inside an import line
    pub kind: TokKind,
}

#[derive(Clone, Copy, Debug, PartialEq, Eq)]
pub enum TokKind {
    Punct,
    Name,
    Number,
    Str,
    ImportHash,
}

#[derive(Clone, Debug, Default)]
pub struct TriviaStats {
    pub comments: usize,
    pub commas: usize,
    pub boms: usize,
    pub crlf: usize,
    pub lone_cr: usize,
    pub tabs: usize,
    pub escapes: usize,
    pub block_strings: usize,
    pub lead_pipe_amp: usize,
    pub shorthand: usize,
    pub non_ascii: usize,
    /// comments that read as an import statement (inside definitions / in type system documents)
    pub import_like: usize,
}

#[derive(Clone, Debug)]
pub struct RenderOpts {
    /// random trivia (needs choices); false = canonical single spaces/newlines
    pub random_trivia: bool,
    pub allow_lone_cr: bool,
    pub allow_bom: bool,
    pub allow_comments: bool,
    pub allow_commas: bool,
    /// spell strings with random escapes / block strings
    pub random_strings: bool,
    /// block strings whose cooked value differs from the raw text (indent, \""" )
    pub allow_cooked_block: bool,
    /// allow any block string at all
    pub allow_block: bool,
    pub allow_surrogate_escape: bool,
    pub allow_eof_comment_no_newline: bool,
    pub allow_lead_pipe: bool,
    pub allow_shorthand: bool,
    /// non-BMP / non-ASCII characters inside comments
    pub unicode_comments: bool,
    /// comment lines that read as `# import x from "y"`: plain comments inside the definitions of an operation
    /// document and everywhere in a type system document
    pub import_like_comments: bool,
}

impl RenderOpts {
    pub fn canonical() -> Self {
        RenderOpts {
            random_trivia: false,
            allow_lone_cr: false,
            allow_bom: false,
            allow_comments: false,
            allow_commas: false,
            random_strings: false,
            allow_cooked_block: false,
            allow_block: false,
            allow_surrogate_escape: false,
            allow_eof_comment_no_newline: false,
            allow_lead_pipe: false,
            allow_shorthand: false,
            unicode_comments: false,
            import_like_comments: false,
        }
    }
    pub fn wild() -> Self {
        RenderOpts {
            random_trivia: true,
            allow_lone_cr: true,
            allow_bom: true,
            allow_comments: true,
            allow_commas: true,
            random_strings: true,
            allow_cooked_block: true,
            allow_block: true,
            allow_surrogate_escape: true,
            allow_eof_comment_no_newline: true,
            allow_lead_pipe: true,
            allow_shorthand: true,
            unicode_comments: true,
            import_like_comments: true,
        }
    }
}

pub struct Out<'a> {
    pub text: String,
    pub tokens: Vec<Tok>,
    pub stats: TriviaStats,
    line: usize,
    col: usize,
    col16: usize,
    bom_on_line: usize,
    seen_lone_cr: bool,
    prev: Option<(TokKind, char)>, // kind and last char of previous token
    pub opts: RenderOpts,
    ch: Option<&'a mut Choices>,
    in_import: bool,
    /// the next token may start a definition of an operation document (an import-like line would be an import)
    pub def_boundary: bool,
    pending_newline: bool,
    indent: usize,
}

const IMPORT_LIKE_POOL: &[&str] = &[" import x from \"y\"", "import * from \"./a.graphql\"", "  import A, B from \"b\" trailing", " import\tF from \"\u{e9}\""];
const COMMENT_POOL: &[&str] = &[
    "",
    " c",
    " a comment",
    "# { } ( ) \" : !",
    " type Query { a: Int }",
    "x import y from \"z\"",
    " imports nothing",
    "\t tab \t",
];
const COMMENT_POOL_UNI: &[&str] = &[" caf\u{e9} \u{3042}", " \u{1F600} astral", " \u{FEFF}bom", " \u{301}combining"];

impl<'a> Out<'a> {
    pub fn new(opts: RenderOpts, ch: Option<&'a mut Choices>) -> Self {
        Out {
            text: String::new(),
            tokens: vec![],
            stats: TriviaStats::default(),
            line: 0,
            col: 0,
            col16: 0,
            bom_on_line: 0,
            seen_lone_cr: false,
            prev: None,
            opts,
            ch,
            in_import: false,
            def_boundary: false,
            pending_newline: false,
            indent: 0,
        }
    }

    fn below(&mut self, n: usize) -> usize {
        match &mut self.ch {
            Some(c) => c.below(n),
            None => 0,
        }
    }
    fn chance(&mut self, num: usize, den: usize) -> bool {
        match &mut self.ch {
            Some(c) => c.chance(num, den),
            None => false,
        }
    }

    /// append raw text, tracking positions per the GraphQL spec's line terminators
    fn push_raw(&mut self, s: &str) {
        let mut chars = s.chars().peekable();
        while let Some(c) = chars.next() {
            self.text.push(c);
            match c {
                '\n' => {
                    self.line += 1;
                    self.col = 0;
                    self.col16 = 0;
                    self.bom_on_line = 0;
                }
                '\r' => {
                    if chars.peek() == Some(&'\n') {
                        // CRLF: the LF will advance the line
                        self.col += 1;
                        self.col16 += 1;
                    } else {
                        self.seen_lone_cr = true;
                        self.stats.lone_cr += 1;
                        self.line += 1;
                        self.col = 0;
                        self.col16 = 0;
                        self.bom_on_line = 0;
                    }
                }
                '\u{FEFF}' => {
                    self.col += 1;
                    self.col16 += 1;
                    self.bom_on_line += 1;
                }
                c => {
                    self.col += 1;
                    self.col16 += c.len_utf16();
                }
            }
        }
    }

    fn newline_str(&mut self) -> &'static str {
        if !self.opts.random_trivia {
            return "\n";
        }
        let lone = self.opts.allow_lone_cr;
        match self.below(if lone { 8 } else { 7 }) {
            0..=4 => "\n",
            5 | 6 => {
                self.stats.crlf += 1;
                "\r\n"
            }
            _ => "\r",
        }
    }

    fn emit_comment(&mut self) {
        let body = if self.opts.import_like_comments && !self.def_boundary && self.chance(1, 5) {
            self.stats.import_like += 1;
            let i = self.below(IMPORT_LIKE_POOL.len());
            IMPORT_LIKE_POOL[i]
        } else if self.opts.unicode_comments && self.chance(1, 4) {
            self.stats.non_ascii += 1;
            let i = self.below(COMMENT_POOL_UNI.len());
            COMMENT_POOL_UNI[i]
        } else {
            let i = self.below(COMMENT_POOL.len());
            COMMENT_POOL[i]
        };
        self.push_raw("#");
        self.push_raw(body);
        let nl = self.newline_str();
        self.push_raw(nl);
        self.stats.comments += 1;
    }

    fn random_trivia(&mut self, need_sep: bool) {
        // number of trivia pieces
        let n = match self.below(10) {
            0..=5 => 0,
            6 | 7 => 1,
            8 => 2,
            _ => 3,
        };
        let mut emitted = 0;
        for _ in 0..n {
            let k = self.below(12);
            match k {
                0..=3 => self.push_raw(" "),
                4 => {
                    self.stats.tabs += 1;
                    self.push_raw("\t")
                }
                5 | 6 => {
                    let nl = self.newline_str();
                    self.push_raw(nl)
                }
                7 | 8 if self.opts.allow_commas => {
                    self.stats.commas += 1;
                    self.push_raw(",")
                }
                9 | 10 if self.opts.allow_comments => self.emit_comment(),
                11 if self.opts.allow_bom => {
                    self.stats.boms += 1;
                    self.push_raw("\u{FEFF}")
                }
                _ => self.push_raw(" "),
            }
            emitted += 1;
        }
        if need_sep && emitted == 0 {
            self.push_raw(" ");
        }
    }

    fn needs_sep(&self, kind: TokKind, first: char) -> bool {
        let Some((pk, plast)) = self.prev else {
            return false;
        };
        let prev_wordy = matches!(pk, TokKind::Name | TokKind::Number);
        let next_wordy = first.is_ascii_alphanumeric() || first == '_' || first == '.' || first == '-';
        if prev_wordy && next_wordy {
            return true;
        }
        if pk == TokKind::Str && first == '"' {
            return true;
        }
        // "..." after "." cannot happen; "$" "name": fine. keep '...' away from numbers
        if plast == '.' && first == '.' {
            return true;
        }
        false
    }

    /// hint: a line break here in canonical mode
    pub fn nl(&mut self) {
        if !self.opts.random_trivia {
            self.pending_newline = true;
        }
    }
    pub fn indent(&mut self) {
        self.indent += 1;
    }
    pub fn dedent(&mut self) {
        self.indent = self.indent.saturating_sub(1);
    }

    pub fn tok_kind(&mut self, s: &str, kind: TokKind) {
        let first = s.chars().next().unwrap_or(' ');
        let need = self.needs_sep(kind, first);
        if self.in_import {
            // inside an import line: only spaces / tabs
            if self.prev.is_some() && kind != TokKind::ImportHash {
                // "#import": no space between # and import is required; we allow 0..2 spaces
                let n = if self.opts.random_trivia { self.below(3) } else { 1 };
                let n = if need && n == 0 { 1 } else { n };
                let after_hash = matches!(self.tokens.last(), Some(t) if t.kind == TokKind::ImportHash);
                let n = if after_hash && !self.opts.random_trivia { 0 } else { n };
                for _ in 0..n {
                    // between `#` and `import` only spaces; elsewhere in the line also tabs, commas and the BOM
                    if after_hash || !self.opts.random_trivia {
                        self.push_raw(" ");
                    } else {
                        let c = [" ", " ", "\t", ",", "\u{FEFF}"][self.below(5)];
                        self.push_raw(c);
                    }
                }
            }
        } else if self.opts.random_trivia {
            self.random_trivia(need);
        } else if self.pending_newline {
            if !self.text.is_empty() {
                self.push_raw("\n");
            }
            for _ in 0..self.indent {
                self.push_raw("  ");
            }
            self.pending_newline = false;
        } else if self.prev.is_some() {
            // canonical: single space between all tokens except a few tight ones
            let tight_next = matches!(s, ")" | "]" | ":" | "!" | "(");
            let tight_prev = matches!(
                self.tokens.last().map(|t| t.text.as_str()),
                Some("(") | Some("[") | Some("$") | Some("@") | Some("...")
            );
            if need || !(tight_next || tight_prev) {
                self.push_raw(" ");
            }
        }
        self.def_boundary = false;
        self.tokens.push(Tok {
            text: s.to_string(),
            line: self.line,
            col: self.col,
            col16: self.col16,
            col_nobom: self.col - self.bom_on_line,
            byte: self.text.len(),
            after_lone_cr: self.seen_lone_cr,
            kind,
        });
        self.push_raw(s);
        self.prev = Some((kind, s.chars().last().unwrap_or(' ')));
    }

    pub fn p(&mut self, s: &str) {
        self.tok_kind(s, TokKind::Punct)
    }
    pub fn name(&mut self, s: &str) {
        self.tok_kind(s, TokKind::Name)
    }
    pub fn num(&mut self, s: &str) {
        self.tok_kind(s, TokKind::Number)
    }

    pub fn finish(mut self) -> Rendered {
        if self.opts.random_trivia {
            // trailing trivia
            self.random_trivia(false);
            if self.opts.allow_comments && self.chance(1, 6) {
                if self.opts.allow_eof_comment_no_newline && self.chance(1, 2) {
                    self.push_raw("# trailing");
                    self.stats.comments += 1;
                } else {
                    self.emit_comment();
                }
            }
        } else {
            self.push_raw("\n");
        }
        Rendered {
            text: self.text,
            tokens: self.tokens,
            stats: self.stats,
        }
    }

    // ---------- strings ----------
    pub fn string(&mut self, value: &str, allow_block: bool) {
        let lit = self.spell_string(value, allow_block);
        self.tok_kind(&lit, TokKind::Str);
    }

    fn spell_string(&mut self, value: &str, allow_block: bool) -> String {
        if !self.opts.random_strings {
            return quote_plain(value);
        }
        if allow_block && self.opts.allow_block && self.chance(1, 4) {
            if let Some(b) = self.spell_block(value) {
                self.stats.block_strings += 1;
                return b;
            }
        }
        let mut s = String::from("\"");
        for c in value.chars() {
            let must_escape = c == '"' || c == '\\' || ((c as u32) < 0x20 && c != '\t');
            let style = if must_escape { 1 + self.below(3) } else { self.below(8) };
            // style 0 (and >3): raw
            match style {
                1 => {
                    // simple escape when available, else \uXXXX
                    let simple = match c {
                        '"' => Some("\\\""),
                        '\\' => Some("\\\\"),
                        '/' => Some("\\/"),
                        '\u{8}' => Some("\\b"),
                        '\u{c}' => Some("\\f"),
                        '\n' => Some("\\n"),
                        '\r' => Some("\\r"),
                        '\t' => Some("\\t"),
                        _ => None,
                    };
                    self.stats.escapes += 1;
                    match simple {
                        Some(e) => s.push_str(e),
                        None => push_u_escape(&mut s, c, false, self.opts.allow_surrogate_escape),
                    }
                }
                2 => {
                    self.stats.escapes += 1;
                    let upper = self.chance(1, 2);
                    push_u_escape(&mut s, c, upper, self.opts.allow_surrogate_escape)
                }
                3 => {
                    self.stats.escapes += 1;
                    let pad = self.below(3);
                    let hex = format!("{:x}", c as u32);
                    s.push_str("\\u{");
                    for _ in 0..pad {
                        s.push('0');
                    }
                    s.push_str(&hex);
                    s.push('}');
                }
                _ => s.push(c),
            }
        }
        s.push('"');
        s
    }

    /// Spell `value` as a block string whose BlockStringValue() is `value`. Returns
    /// None when that is impossible (or would need a cooked form that is disabled).
    fn spell_block(&mut self, value: &str) -> Option<String> {
        // characters that cannot be represented: CR (normalised away is fine only as
        // line terminator) -> refuse
        if value.chars().any(|c| (c as u32) < 0x20 && c != '\t' && c != '\n') {
            return None;
        }
        if value.is_empty() {
            return Some("\"\"\"\"\"\"".to_string());
        }
        let lines: Vec<&str> = value.split('\n').collect();
        // BlockStringValue strips leading/trailing blank lines; value must not have them
        let blank = |l: &str| l.chars().all(|c| c == ' ' || c == '\t');
        if blank(lines[0]) || blank(lines[lines.len() - 1]) {
            return None;
        }
        // common indent of lines after the first must be 0 in `value`
        let mut common: Option<usize> = None;
        for l in lines.iter().skip(1) {
            let ind = l.chars().take_while(|c| *c == ' ' || *c == '\t').count();
            if ind < l.chars().count() {
                common = Some(common.map_or(ind, |c: usize| c.min(ind)));
            }
        }
        if common.unwrap_or(0) != 0 {
            return None;
        }
        let needs_escape = value.contains("\"\"\"");
        // a trailing quote would merge with the closing delimiter; a trailing backslash is fine
        let ends_with_quote = value.ends_with('"') || value.ends_with('\\');
        let cooked_ok = self.opts.allow_cooked_block;
        if (needs_escape || ends_with_quote) && !cooked_ok {
            return None;
        }
        let body_raw = value.replace("\"\"\"", "\\\"\"\"");
        // forms that put a line break after the opening delimiter make the value's first
        // line an ordinary line: its indentation then takes part in the common indent
        let first_indent = lines[0].chars().take_while(|c| *c == ' ' || *c == '\t').count();
        let newline_forms_ok = first_indent == 0;
        if (ends_with_quote || value.starts_with('"')) && !newline_forms_ok {
            return None;
        }
        if cooked_ok && newline_forms_ok && self.chance(1, 2) {
            // cooked form: indentation + surrounding blank lines
            let ind = 1 + self.below(4);
            let pad: String = " ".repeat(ind);
            let mut s = String::from("\"\"\"\n");
            if self.chance(1, 3) {
                s.push_str("  \n");
            }
            for (i, l) in body_raw.split('\n').enumerate() {
                if i > 0 {
                    s.push('\n');
                }
                if !blank(l) || i == 0 {
                    s.push_str(&pad);
                }
                s.push_str(l);
            }
            s.push('\n');
            if self.chance(1, 3) {
                s.push_str(" \t\n");
            }
            s.push_str("\"\"\"");
            return Some(s);
        }
        if ends_with_quote {
            // needs a line break before the delimiter
            return Some(format!("\"\"\"{}\n\"\"\"", body_raw));
        }
        // raw == cooked form: first line directly after the delimiter. The first line must
        // not start with whitespace-only and (for raw==cooked) lines after the first have
        // zero common indent, which holds. A leading quote char is fine (`""""a"""` is
        // ambiguous though: four quotes) -> refuse
        if value.starts_with('"') {
            if !cooked_ok {
                return None;
            }
            return Some(format!("\"\"\"\n{}\n\"\"\"", body_raw));
        }
        if needs_escape {
            // raw != cooked because of the escape
            return Some(format!("\"\"\"{}\"\"\"", body_raw));
        }
        Some(format!("\"\"\"{}\"\"\"", value))
    }
}

fn push_u_escape(s: &mut String, c: char, upper: bool, allow_surrogate: bool) {
    let code = c as u32;
    if code <= 0xFFFF {
        if upper {
            s.push_str(&format!("\\u{:04X}", code));
        } else {
            s.push_str(&format!("\\u{:04x}", code));
        }
    } else if allow_surrogate {
        let v = code - 0x10000;
        let hi = 0xD800 + (v >> 10);
        let lo = 0xDC00 + (v & 0x3FF);
        s.push_str(&format!("\\u{:04X}\\u{:04x}", hi, lo));
    } else {
        s.push_str(&format!("\\u{{{:x}}}", code));
    }
}

pub fn quote_plain(value: &str) -> String {
    let mut s = String::from("\"");
    for c in value.chars() {
        match c {
            '"' => s.push_str("\\\""),
            '\\' => s.push_str("\\\\"),
            '\n' => s.push_str("\\n"),
            '\r' => s.push_str("\\r"),
            '\t' => s.push_str("\\t"),
            '\u{8}' => s.push_str("\\b"),
            '\u{c}' => s.push_str("\\f"),
            c if (c as u32) < 0x20 => s.push_str(&format!("\\u{:04x}", c as u32)),
            c => s.push(c),
        }
    }
    s.push('"');
    s
}

#[derive(Clone, Debug)]
pub struct Rendered {
    pub text: String,
    pub tokens: Vec<Tok>,
    pub stats: TriviaStats,
}

// ---------------------------------------------------------------------------
// value / type / directive rendering

pub fn r_type(o: &mut Out, t: &MType) {
    match t {
        MType::Named(n) => o.name(n),
        MType::List(t) => {
            o.p("[");
            r_type(o, t);
            o.p("]");
        }
        MType::NonNull(t) => {
            r_type(o, t);
            o.p("!");
        }
    }
}

pub fn r_value(o: &mut Out, v: &MValue) {
    match v {
        MValue::Var(n) => {
            o.p("$");
            // no trivia allowed? `$ a` is "$" then Name tokens: Variable = "$" ~ Name with
            // implicit whitespace in pest, and two lexical tokens in the spec: legal.
            o.name(n);
        }
        MValue::Int(s) | MValue::Float(s) => o.num(s),
        MValue::Str(s) => o.string(s, true),
        MValue::Bool(b) => o.name(if *b { "true" } else { "false" }),
        MValue::Null => o.name("null"),
        MValue::Enum(e) => o.name(e),
        MValue::List(vs) => {
            o.p("[");
            for v in vs {
                r_value(o, v);
            }
            o.p("]");
        }
        MValue::Object(fs) => {
            o.p("{");
            for (k, v) in fs {
                o.name(k);
                o.p(":");
                r_value(o, v);
            }
            o.p("}");
        }
    }
}

pub fn r_args(o: &mut Out, args: &MArgs) {
    if args.is_empty() {
        return;
    }
    o.p("(");
    for (k, v) in args {
        o.name(k);
        o.p(":");
        r_value(o, v);
    }
    o.p(")");
}

pub fn r_directives(o: &mut Out, ds: &[MDirective]) {
    for d in ds {
        o.p("@");
        o.name(&d.name);
        r_args(o, &d.args);
    }
}

pub fn r_selections(o: &mut Out, sels: &[MSelection]) {
    o.p("{");
    o.indent();
    for s in sels {
        o.nl();
        match s {
            MSelection::Field(f) => {
                if let Some(a) = &f.alias {
                    o.name(a);
                    o.p(":");
                }
                o.name(&f.name);
                r_args(o, &f.args);
                r_directives(o, &f.directives);
                if let Some(sel) = &f.sel {
                    r_selections(o, sel);
                }
            }
            MSelection::Spread { name, directives } => {
                o.p("...");
                o.name(name);
                r_directives(o, directives);
            }
            MSelection::Inline { on, directives, sel } => {
                o.p("...");
                if let Some(t) = on {
                    o.name("on");
                    o.name(t);
                }
                r_directives(o, directives);
                r_selections(o, sel);
            }
        }
    }
    o.dedent();
    o.nl();
    o.p("}");
}

pub fn r_exec_def(o: &mut Out, d: &MExecDef) {
    o.nl();
    match d {
        MExecDef::Op(op) => {
            let can_short = op.op == OpType::Query
                && op.name.is_none()
                && op.vars.is_empty()
                && op.directives.is_empty();
            let short = can_short
                && op.shorthand
                && o.opts.allow_shorthand;
            if short {
                o.stats.shorthand += 1;
            } else {
                o.name(op.op.as_str());
                if let Some(n) = &op.name {
                    o.name(n);
                }
                if !op.vars.is_empty() {
                    o.p("(");
                    for v in &op.vars {
                        o.p("$");
                        o.name(&v.name);
                        o.p(":");
                        r_type(o, &v.ty);
                        if let Some(d) = &v.default {
                            o.p("=");
                            r_value(o, d);
                        }
                        r_directives(o, &v.directives);
                    }
                    o.p(")");
                }
                r_directives(o, &op.directives);
            }
            r_selections(o, &op.sel);
        }
        MExecDef::Frag(f) => {
            o.name("fragment");
            o.name(&f.name);
            o.name("on");
            o.name(&f.on);
            r_directives(o, &f.directives);
            r_selections(o, &f.sel);
        }
        MExecDef::Import(i) => {
            // an import line must start on its own line (it is a comment otherwise only
            // lexically; nitrogql accepts it anywhere a definition may start)
            if !o.text.is_empty() && !o.text.ends_with('\n') && !o.text.ends_with('\r') {
                o.push_raw("\n");
            }
            o.in_import = true;
            o.tok_kind("#", TokKind::ImportHash);
            o.name("import");
            for t in &i.targets {
                match t {
                    None => o.p("*"),
                    Some(n) => o.name(n),
                }
                // commas between targets are insignificant; canonical form uses ", "
            }
            o.name("from");
            // a quoted string with random escape spellings (never a block string: the statement is one line)
            o.string(&i.path, false);
            o.in_import = false;
            o.push_raw("\n");
            o.prev = None;
        }
    }
}

pub fn render_op_doc(doc: &MOpDoc, opts: RenderOpts, ch: Option<&mut Choices>) -> Rendered {
    let mut o = Out::new(opts, ch);
    if o.opts.random_trivia && o.opts.allow_bom && o.chance(1, 8) {
        o.push_raw("\u{FEFF}");
        o.stats.boms += 1;
    }
    for d in doc {
        o.def_boundary = true;
        r_exec_def(&mut o, d);
    }
    o.def_boundary = true;
    o.finish()
}

fn r_desc(o: &mut Out, d: &Option<String>) {
    if let Some(d) = d {
        o.string(d, true);
        o.nl();
    }
}

fn r_input_value(o: &mut Out, v: &MInputValue) {
    r_desc(o, &v.desc);
    o.name(&v.name);
    o.p(":");
    r_type(o, &v.ty);
    if let Some(d) = &v.default {
        o.p("=");
        r_value(o, d);
    }
    r_directives(o, &v.directives);
}

fn r_arg_defs(o: &mut Out, args: &[MInputValue]) {
    if args.is_empty() {
        return;
    }
    o.p("(");
    for a in args {
        r_input_value(o, a);
    }
    o.p(")");
}

fn r_fields(o: &mut Out, fields: &[MField]) {
    if fields.is_empty() {
        return;
    }
    o.p("{");
    o.indent();
    for f in fields {
        o.nl();
        r_desc(o, &f.desc);
        o.name(&f.name);
        r_arg_defs(o, &f.args);
        o.p(":");
        r_type(o, &f.ty);
        r_directives(o, &f.directives);
    }
    o.dedent();
    o.nl();
    o.p("}");
}

fn r_implements(o: &mut Out, imp: &[String]) {
    if imp.is_empty() {
        return;
    }
    o.name("implements");
    if o.opts.allow_lead_pipe && o.chance(1, 4) {
        o.stats.lead_pipe_amp += 1;
        o.p("&");
    }
    for (i, n) in imp.iter().enumerate() {
        if i > 0 {
            o.p("&");
        }
        o.name(n);
    }
}

pub fn r_type_body(o: &mut Out, t: &MTypeDef, is_ext: bool) {
    o.name(t.kind.keyword());
    o.name(&t.name);
    match t.kind {
        Kind::Scalar => r_directives(o, &t.directives),
        Kind::Object | Kind::Interface => {
            r_implements(o, &t.implements);
            r_directives(o, &t.directives);
            r_fields(o, &t.fields);
        }
        Kind::Union => {
            r_directives(o, &t.directives);
            if !t.members.is_empty() || !is_ext {
                // `union U =` with no members is accepted by nitrogql's grammar only;
                // models never produce a definition without members, see generators.
                if !t.members.is_empty() {
                    o.p("=");
                    if o.opts.allow_lead_pipe && o.chance(1, 4) {
                        o.stats.lead_pipe_amp += 1;
                        o.p("|");
                    }
                    for (i, m) in t.members.iter().enumerate() {
                        if i > 0 {
                            o.p("|");
                        }
                        o.name(m);
                    }
                }
            }
        }
        Kind::Enum => {
            r_directives(o, &t.directives);
            if !t.values.is_empty() {
                o.p("{");
                o.indent();
                for v in &t.values {
                    o.nl();
                    r_desc(o, &v.desc);
                    o.name(&v.name);
                    r_directives(o, &v.directives);
                }
                o.dedent();
                o.nl();
                o.p("}");
            }
        }
        Kind::Input => {
            r_directives(o, &t.directives);
            if !t.input_fields.is_empty() {
                o.p("{");
                o.indent();
                for f in &t.input_fields {
                    o.nl();
                    r_input_value(o, f);
                }
                o.dedent();
                o.nl();
                o.p("}");
            }
        }
    }
}

fn r_roots(o: &mut Out, roots: &[(OpType, String)]) {
    if roots.is_empty() {
        return;
    }
    o.p("{");
    o.indent();
    for (op, n) in roots {
        o.nl();
        o.name(op.as_str());
        o.p(":");
        o.name(n);
    }
    o.dedent();
    o.nl();
    o.p("}");
}

pub fn r_ts_def(o: &mut Out, d: &MTsDef) {
    o.nl();
    match d {
        MTsDef::Schema(s) => {
            r_desc(o, &s.desc);
            o.name("schema");
            r_directives(o, &s.directives);
            r_roots(o, &s.roots);
        }
        MTsDef::SchemaExt(s) => {
            o.name("extend");
            o.name("schema");
            r_directives(o, &s.directives);
            r_roots(o, &s.roots);
        }
        MTsDef::Type(t) => {
            r_desc(o, &t.desc);
            r_type_body(o, t, false);
        }
        MTsDef::TypeExt(t) => {
            o.name("extend");
            r_type_body(o, t, true);
        }
        MTsDef::Directive(d) => {
            r_desc(o, &d.desc);
            o.name("directive");
            o.p("@");
            o.name(&d.name);
            r_arg_defs(o, &d.args);
            if d.repeatable {
                o.name("repeatable");
            }
            o.name("on");
            if o.opts.allow_lead_pipe && o.chance(1, 4) {
                o.stats.lead_pipe_amp += 1;
                o.p("|");
            }
            for (i, l) in d.locations.iter().enumerate() {
                if i > 0 {
                    o.p("|");
                }
                o.name(l);
            }
        }
    }
}

pub fn render_ts_doc(doc: &[MTsDef], opts: RenderOpts, ch: Option<&mut Choices>) -> Rendered {
    let mut o = Out::new(opts, ch);
    if o.opts.random_trivia && o.opts.allow_bom && o.chance(1, 8) {
        o.push_raw("\u{FEFF}");
        o.stats.boms += 1;
    }
    for d in doc {
        r_ts_def(&mut o, d);
    }
    o.finish()
}

pub fn canon_ts(doc: &[MTsDef]) -> String {
    render_ts_doc(doc, RenderOpts::canonical(), None).text
}
pub fn canon_op(doc: &MOpDoc) -> String {
    render_op_doc(doc, RenderOpts::canonical(), None).text
}
