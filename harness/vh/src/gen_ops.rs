//! Valid-by-construction operation documents over a generated schema.
//!
//! Response-key discipline: per document, a table maps each response key to exactly one
//! (field name, arguments) pair, and the schema generator gives one field name one type
//! everywhere, so any two selections sharing a response key can merge (spec
//! FieldsInSetCanMerge) wherever they meet.

use crate::choices::Choices;
use crate::model::*;
use crate::schema::Schema;
use std::collections::{BTreeMap, BTreeSet};

#[derive(Clone, Debug)]
pub struct DocGenOpts {
    pub max_ops: usize,
    pub max_frags: usize,
    pub max_depth: usize,
    pub variables: bool,
    pub custom_directives: bool,
    pub skip_include: bool,
    pub skip_include_vars: bool,
    /// spec input coercions
    pub int_for_float: bool,
    pub int_for_id: bool,
    pub single_for_list: bool,
    pub nullable_var_default_in_nonnull: bool,
    /// `null` literal where a nullable list type is expected
    pub null_for_list: bool,
    /// variable of type T! used where T is expected, [T!] where [T] is expected
    pub stricter_var_types: bool,
    /// subscription operations
    pub subscriptions: bool,
    /// all generated fragments are spread by some operation (strict spec validity)
    pub all_fragments_used: bool,
    /// anonymous single operation
    pub anonymous: bool,
    pub aliases: bool,
    /// directives on variable definitions / fragment definitions / spreads / inline fragments
    pub directives_everywhere: bool,
    /// merged same-key composite fields may carry variable conditions in sub-selections
    pub merged_key_with_variable_condition: bool,
    /// default values on variables
    pub variable_defaults: bool,
}

impl Default for DocGenOpts {
    fn default() -> Self {
        DocGenOpts {
            max_ops: 3,
            max_frags: 3,
            max_depth: 3,
            variables: true,
            custom_directives: true,
            skip_include: true,
            skip_include_vars: true,
            int_for_float: true,
            int_for_id: true,
            single_for_list: true,
            nullable_var_default_in_nonnull: true,
            null_for_list: true,
            stricter_var_types: true,
            subscriptions: true,
            all_fragments_used: false,
            anonymous: true,
            aliases: true,
            directives_everywhere: true,
            merged_key_with_variable_condition: true,
            variable_defaults: true,
        }
    }
}

#[derive(Clone, Debug, Default)]
pub struct GenDoc {
    pub doc: MOpDoc,
    pub labels: BTreeSet<&'static str>,
}

struct Ctx<'a> {
    s: &'a Schema,
    o: &'a DocGenOpts,
    /// field name -> variants (alias, args)
    variants: BTreeMap<String, Vec<(Option<String>, MArgs)>>,
    /// document-wide variable table
    vars: Vec<MVarDef>,
    frags: Vec<MFragment>,
    labels: BTreeSet<&'static str>,
    /// are variables allowed at the moment (false inside const contexts)
    allow_vars: bool,
}

fn composite_types(s: &Schema) -> Vec<String> {
    s.order.iter().filter(|n| s.is_composite(n)).cloned().collect()
}

fn overlap(s: &Schema, a: &str, b: &str) -> bool {
    if a == b {
        return true;
    }
    let pa = s.possible(a);
    let pb = s.possible(b);
    pa.iter().any(|x| pb.contains(x))
}

impl<'a> Ctx<'a> {
    fn bool_var(&mut self, ch: &mut Choices) -> MValue {
        // reuse or create a Boolean! variable (or Boolean with default)
        let existing: Vec<String> = self
            .vars
            .iter()
            .filter(|v| v.ty == MType::non_null(MType::named("Boolean")) || (self.o.nullable_var_default_in_nonnull && v.ty == MType::named("Boolean") && matches!(&v.default, Some(d) if *d != MValue::Null)))
            .map(|v| v.name.clone())
            .collect();
        if !existing.is_empty() && ch.chance(2, 3) {
            return MValue::Var(ch.pick(&existing).clone());
        }
        if existing.len() >= 3 {
            return MValue::Var(ch.pick(&existing).clone());
        }
        let name = format!("c{}", self.vars.len());
        let with_default = self.o.nullable_var_default_in_nonnull && self.o.variable_defaults && ch.chance(1, 5);
        if with_default {
            self.labels.insert("nullable-var-with-default-in-nonnull-position");
            self.vars.push(MVarDef {
                name: name.clone(),
                ty: MType::named("Boolean"),
                default: Some(MValue::Bool(ch.flip())),
                directives: vec![],
            });
        } else {
            self.vars.push(MVarDef {
                name: name.clone(),
                ty: MType::non_null(MType::named("Boolean")),
                default: None,
                directives: vec![],
            });
        }
        MValue::Var(name)
    }

    /// variable usable at a position of type `loc` (with `loc_has_default`)
    fn var_for(&mut self, ch: &mut Choices, loc: &MType, loc_has_default: bool) -> MValue {
        // compatible existing variables: exact type, or stricter
        let stricter_ok = self.o.stricter_var_types;
        let compatible = |v: &MVarDef| -> bool {
            if &v.ty == loc {
                return true;
            }
            stricter_ok && types_compatible(&v.ty, loc)
        };
        let existing: Vec<String> = self.vars.iter().filter(|v| compatible(v)).map(|v| v.name.clone()).collect();
        if !existing.is_empty() && ch.chance(1, 2) {
            return MValue::Var(ch.pick(&existing).clone());
        }
        let name = format!("v{}", self.vars.len());
        let mut ty = loc.clone();
        let mut default = None;
        if self.o.stricter_var_types && ch.chance(1, 3) {
            // spec AreTypesCompatible: the variable's type may be non-null at any level where the
            // location is nullable ([T!] for [T], [[T]!]! for [[T]], T! for T)
            ty = stricter_type(ch, loc);
            if &ty != loc {
                self.labels.insert("nonnull-var-in-nullable-position");
                if ty.nullable().list_depth() > 0 && ty.nullable() != loc.nullable() {
                    self.labels.insert("stricter-list-element-var");
                }
            }
        } else if loc.is_non_null() && self.o.nullable_var_default_in_nonnull && self.o.variable_defaults && ch.chance(1, 5) {
            // nullable variable with a non-null default in a non-null position
            ty = loc.nullable().clone();
            let save = self.allow_vars;
            self.allow_vars = false;
            let mut d = self.value_nn(ch, &ty, 0);
            if d == MValue::Null {
                d = self.value(ch, loc, 0);
            }
            self.allow_vars = save;
            default = Some(d);
            self.labels.insert("nullable-var-with-default-in-nonnull-position");
        } else if loc.is_non_null() && loc_has_default && self.o.nullable_var_default_in_nonnull && ch.chance(1, 5) {
            // position itself has a default: nullable variable allowed
            ty = loc.nullable().clone();
            self.labels.insert("nullable-var-in-nonnull-position-with-default");
        } else if self.o.variable_defaults && ch.chance(1, 5) {
            let save = self.allow_vars;
            self.allow_vars = false;
            let d = self.value_nn(ch, &ty, 0);
            self.allow_vars = save;
            default = Some(d);
            self.labels.insert("variable-default");
        }
        self.vars.push(MVarDef { name: name.clone(), ty, default, directives: vec![] });
        MValue::Var(name)
    }

    /// a value for a possibly-nullable position
    fn value_nn(&mut self, ch: &mut Choices, ty: &MType, depth: usize) -> MValue {
        let is_list = matches!(ty, MType::List(_));
        if !ty.is_non_null() && (self.o.null_for_list || !is_list) && ch.chance(1, 8) {
            if is_list {
                self.labels.insert("null-literal-for-list");
            }
            return MValue::Null;
        }
        self.value(ch, ty, depth)
    }

    /// a non-null value acceptable for `ty` under the spec's input coercion
    fn value(&mut self, ch: &mut Choices, ty: &MType, depth: usize) -> MValue {
        match ty {
            MType::NonNull(t) => self.value(ch, t, depth),
            MType::List(t) => {
                if self.o.single_for_list && ch.chance(1, 6) {
                    // single value coerced to a one-element list (not a variable: the
                    // coercion does not apply to variables)
                    self.labels.insert("single-value-for-list");
                    let save = self.allow_vars;
                    self.allow_vars = false;
                    let v = self.value(ch, t, depth + 1);
                    self.allow_vars = save;
                    if matches!(v, MValue::List(_)) {
                        return MValue::List(vec![v]);
                    }
                    return v;
                }
                let n = if depth > 2 { 0 } else { ch.below(3) };
                let mut items = vec![];
                for _ in 0..n {
                    if self.allow_vars && self.o.variables && ch.chance(1, 8) {
                        items.push(self.var_for(ch, t, false));
                        self.labels.insert("variable-inside-list");
                    } else {
                        items.push(self.value_nn(ch, t, depth + 1));
                    }
                }
                MValue::List(items)
            }
            MType::Named(n) => match n.as_str() {
                "Int" => MValue::Int(ch.pick(&["0", "1", "42", "-7", "2147483647", "-2147483648", "-0"]).to_string()),
                "Float" => {
                    if self.o.int_for_float && ch.chance(1, 3) {
                        self.labels.insert("int-literal-for-float");
                        // an integer literal in a Float position is not bound to 32 bits
                        MValue::Int(ch.pick(&["1", "0", "-3", "2147483648", "-9007199254740993", "12345678901234567890"]).to_string())
                    } else {
                        MValue::Float(ch.pick(&["1.5", "0.0", "-2.25", "1e3", "6.02E+23", "-0.0", "1E-7"]).to_string())
                    }
                }
                "String" => MValue::Str(ch.pick(&["", "x", "hello world", "caf\u{e9}", "q\"uote", "line\nbreak", "\u{20BB7}\u{1F600} planes 2 and 1", "\u{10FFFD} plane 16"]).to_string()),
                "Boolean" => MValue::Bool(ch.flip()),
                "ID" => {
                    if self.o.int_for_id && ch.chance(1, 3) {
                        self.labels.insert("int-literal-for-id");
                        // (an ID given as an integer literal is not bound to 32 bits either)
                        MValue::Int(ch.pick(&["1", "123", "4294967296", "9223372036854775808"]).to_string())
                    } else {
                        MValue::Str(ch.pick(&["1", "abc"]).to_string())
                    }
                }
                other => {
                    let Some(t) = self.s.types.get(other) else {
                        return MValue::Null;
                    };
                    match t.kind {
                        Kind::Enum => MValue::Enum(ch.pick(&t.values).name.clone()),
                        Kind::Input => {
                            let t = t.clone();
                            let mut fs = vec![];
                            for f in &t.input_fields {
                                let required = f.ty.is_non_null() && f.default.is_none();
                                if required || (depth < 2 && ch.chance(1, 2)) {
                                    let v = if self.allow_vars && self.o.variables && ch.chance(1, 8) {
                                        self.labels.insert("variable-inside-object");
                                        self.var_for(ch, &f.ty, f.default.is_some())
                                    } else if f.ty.is_non_null() {
                                        self.value(ch, &f.ty, depth + 1)
                                    } else {
                                        self.value_nn(ch, &f.ty, depth + 1)
                                    };
                                    fs.push((f.name.clone(), v));
                                }
                            }
                            if ch.chance(1, 3) {
                                ch.shuffle(&mut fs);
                            }
                            self.labels.insert("input-object-literal");
                            MValue::Object(fs)
                        }
                        Kind::Scalar => {
                            // custom scalar: any literal
                            self.labels.insert("custom-scalar-literal");
                            match ch.below(5) {
                                0 => MValue::Int(ch.pick(&["7", "1700000000000", "-99999999999"]).to_string()),
                                1 => MValue::Str("2020-01-01".into()),
                                2 => MValue::Float("1.5".into()),
                                3 => MValue::Bool(true),
                                _ => MValue::Object(vec![("k".into(), MValue::List(vec![MValue::Int("1".into())]))]),
                            }
                        }
                        _ => MValue::Null,
                    }
                }
            },
        }
    }

    fn args_for(&mut self, ch: &mut Choices, defs: &[MInputValue]) -> MArgs {
        let mut out = vec![];
        for a in defs {
            let required = a.ty.is_non_null() && a.default.is_none();
            if required || ch.chance(1, 2) {
                let v = if self.allow_vars && self.o.variables && ch.chance(1, 3) {
                    self.labels.insert("variable-argument");
                    self.var_for(ch, &a.ty, a.default.is_some())
                } else if a.ty.is_non_null() {
                    self.value(ch, &a.ty, 0)
                } else {
                    self.value_nn(ch, &a.ty, 0)
                };
                out.push((a.name.clone(), v));
            }
        }
        if ch.chance(1, 4) {
            ch.shuffle(&mut out);
        }
        out
    }

    /// executable directives for a location
    fn directives(&mut self, ch: &mut Choices, loc: &str) -> Vec<MDirective> {
        let mut out: Vec<MDirective> = vec![];
        let can_skip = matches!(loc, "FIELD" | "FRAGMENT_SPREAD" | "INLINE_FRAGMENT");
        if can_skip && self.o.skip_include && ch.chance(1, 4) {
            let which = ch.below(3);
            let mut cond = |this: &mut Self, ch: &mut Choices| -> MValue {
                if this.allow_vars && this.o.skip_include_vars && ch.chance(1, 2) {
                    this.labels.insert("variable-condition");
                    this.bool_var(ch)
                } else {
                    MValue::Bool(ch.flip())
                }
            };
            if which == 0 || which == 2 {
                let c = cond(self, ch);
                out.push(MDirective { name: "skip".into(), args: vec![("if".into(), c)] });
            }
            if which == 1 || which == 2 {
                let c = cond(self, ch);
                out.push(MDirective { name: "include".into(), args: vec![("if".into(), c)] });
            }
            if which == 2 {
                self.labels.insert("skip-and-include");
            }
            self.labels.insert("skip-include");
        }
        if self.o.custom_directives && (loc == "FIELD" || loc.starts_with("QUERY") || self.o.directives_everywhere) {
            let defs: Vec<MDirectiveDef> = self
                .s
                .directive_order
                .iter()
                .map(|n| self.s.directives[n].clone())
                .filter(|d| d.locations.iter().any(|l| l == loc))
                .collect();
            for d in defs {
                if ch.chance(1, 6) {
                    let reps = if d.repeatable && ch.chance(1, 3) { 2 } else { 1 };
                    for _ in 0..reps {
                        let save = self.allow_vars;
                        if loc == "VARIABLE_DEFINITION" {
                            self.allow_vars = false;
                        }
                        let args = self.args_for(ch, &d.args);
                        self.allow_vars = save;
                        out.push(MDirective { name: d.name.clone(), args });
                    }
                    self.labels.insert("custom-directive");
                    if loc != "FIELD" {
                        self.labels.insert("directive-at-nonfield-location");
                    }
                }
            }
        }
        out
    }

    fn field_selection(&mut self, ch: &mut Choices, parent: &str, depth: usize) -> MSelection {
        let pk = self.s.kind(parent).unwrap();
        let mut names: Vec<String> = if pk == Kind::Union {
            vec![]
        } else {
            self.s.types[parent].fields.iter().map(|f| f.name.clone()).filter(|n| !self.s.narrowed.contains(&(parent.to_string(), n.clone()))).collect()
        };
        // prefer leaf fields when deep
        if depth >= self.o.max_depth {
            names.retain(|n| {
                let f = self.s.field(parent, n).unwrap();
                self.s.is_leaf(f.ty.base())
            });
        }
        let use_typename = names.is_empty() || ch.chance(1, 6);
        if use_typename {
            self.labels.insert("typename");
            let alias = if self.o.aliases && ch.chance(1, 6) { Some("tn".to_string()) } else { None };
            return MSelection::Field(MFieldSel {
                alias,
                name: "__typename".into(),
                args: vec![],
                directives: self.directives(ch, "FIELD"),
                sel: None,
            });
        }
        let fname = ch.pick(&names).clone();
        let fdef = self.s.field(parent, &fname).unwrap().clone();
        // variant (alias, args)
        let existing = self.variants.get(&fname).cloned().unwrap_or_default();
        let reuse = !existing.is_empty() && (fdef.args.is_empty() || ch.chance(2, 3)) && !(self.o.aliases && ch.chance(1, 5));
        let (alias, args) = if reuse {
            ch.pick(&existing).clone()
        } else {
            let args = self.args_for(ch, &fdef.args);
            // same args as an existing variant => reuse its key
            if let Some(v) = existing.iter().find(|(_, a)| a == &args) {
                if !(self.o.aliases && ch.chance(1, 3)) {
                    v.clone()
                } else {
                    let alias = Some(format!("{}_{}", fname, existing.len()));
                    self.variants.entry(fname.clone()).or_default().push((alias.clone(), args.clone()));
                    self.labels.insert("alias");
                    (alias, args)
                }
            } else {
                let alias = if existing.iter().any(|(a, _)| a.is_none()) || (self.o.aliases && ch.chance(1, 4)) {
                    self.labels.insert("alias");
                    Some(format!("{}_{}", fname, existing.len()))
                } else {
                    None
                };
                self.variants.entry(fname.clone()).or_default().push((alias.clone(), args.clone()));
                (alias, args)
            }
        };
        if !args.is_empty() {
            self.labels.insert("field-arguments");
        }
        let base = fdef.ty.base().to_string();
        let sel = if self.s.is_composite(&base) {
            if fdef.ty.list_depth() > 0 {
                self.labels.insert("list-of-composite");
            }
            Some(self.selection_set(ch, &base, depth + 1))
        } else {
            None
        };
        MSelection::Field(MFieldSel { alias, name: fname, args, directives: self.directives(ch, "FIELD"), sel })
    }

    fn selection_set(&mut self, ch: &mut Choices, parent: &str, depth: usize) -> Vec<MSelection> {
        let n = ch.range(1, if depth >= self.o.max_depth { 2 } else { 4 });
        let mut out = vec![];
        for _ in 0..n {
            let deep = depth >= self.o.max_depth + 1;
            let k = if deep { 0 } else { ch.weighted(&[6, 2, 2]) };
            match k {
                1 => {
                    // inline fragment
                    let cands: Vec<String> = composite_types(self.s).into_iter().filter(|t| overlap(self.s, t, parent)).collect();
                    let on = if cands.is_empty() || ch.chance(1, 4) { None } else { Some(ch.pick(&cands).clone()) };
                    let scope = on.clone().unwrap_or_else(|| parent.to_string());
                    if on.is_some() && self.s.possible(parent).len() >= 2 {
                        self.labels.insert("type-condition-on-abstract-parent");
                    }
                    if on.is_none() {
                        self.labels.insert("inline-fragment-without-condition");
                    }
                    let directives = self.directives(ch, "INLINE_FRAGMENT");
                    let sel = self.selection_set(ch, &scope, depth + 1);
                    out.push(MSelection::Inline { on, directives, sel });
                }
                2 => {
                    let cands: Vec<String> =
                        self.frags.iter().filter(|f| overlap(self.s, &f.on, parent)).map(|f| f.name.clone()).collect();
                    if cands.is_empty() {
                        out.push(self.field_selection(ch, parent, depth));
                    } else {
                        let name = ch.pick(&cands).clone();
                        self.labels.insert("fragment-spread");
                        out.push(MSelection::Spread { name, directives: self.directives(ch, "FRAGMENT_SPREAD") });
                    }
                }
                _ => out.push(self.field_selection(ch, parent, depth)),
            }
        }
        // duplicate a selection (merged response keys)
        if ch.chance(1, 4) {
            let i = ch.below(out.len());
            if let MSelection::Field(f) = &out[i] {
                let mut f2 = f.clone();
                if let Some(_) = &f2.sel {
                    let base = self.s.field(parent, &f2.name).map(|d| d.ty.base().to_string());
                    if let Some(base) = base {
                        f2.sel = Some(self.selection_set(ch, &base, depth + 1));
                        self.labels.insert("merged-composite-key");
                    }
                }
                f2.directives = self.directives(ch, "FIELD");
                self.labels.insert("merged-response-key");
                out.push(MSelection::Field(f2));
            }
        }
        // a composite field of this level once more under an inline fragment without type condition, whose
        // directives may be variable conditions: the occurrences then differ, per variable assignment, only in
        // their nested selections (the first occurrence, the one written at this level, carries no condition)
        if depth <= self.o.max_depth && ch.chance(1, 6) {
            let comps: Vec<usize> = out.iter().enumerate().filter(|(_, s)| matches!(s, MSelection::Field(f) if f.sel.is_some() && f.directives.is_empty())).map(|(i, _)| i).collect();
            if !comps.is_empty() {
                let i = *ch.pick(&comps);
                if let MSelection::Field(f) = &out[i] {
                    let mut f2 = f.clone();
                    if let Some(base) = self.s.field(parent, &f2.name).map(|d| d.ty.base().to_string()) {
                        // half of the time the second occurrence adds exactly one leaf field the first one does not
                        // select (the branches' field lists are then prefixes of one another)
                        let already: BTreeSet<String> = f2.sel.iter().flatten().filter_map(|x| if let MSelection::Field(g) = x { Some(g.key().to_string()) } else { None }).collect();
                        let extra: Vec<String> = self
                            .s
                            .types
                            .get(&base)
                            .map(|t| {
                                t.fields
                                    .iter()
                                    .filter(|g| self.s.is_leaf(g.ty.base()) && !g.args.iter().any(|a| a.ty.is_non_null() && a.default.is_none()) && !already.contains(&g.name) && !self.variants.contains_key(&g.name))
                                    .map(|g| g.name.clone())
                                    .collect()
                            })
                            .unwrap_or_default();
                        if !extra.is_empty() && self.s.kind(&base) == Some(Kind::Object) && ch.flip() {
                            let name = ch.pick(&extra).clone();
                            f2.sel = Some(vec![MSelection::Field(MFieldSel { alias: None, name, args: vec![], directives: vec![], sel: None })]);
                        } else {
                            f2.sel = Some(self.selection_set(ch, &base, depth + 1));
                        }
                        // mostly under a variable condition (that is what makes the occurrences differ per assignment)
                        let directives = if self.allow_vars && self.o.skip_include && self.o.skip_include_vars && ch.chance(3, 4) {
                            self.labels.insert("variable-condition");
                            let v = self.bool_var(ch);
                            vec![MDirective { name: if ch.flip() { "skip" } else { "include" }.into(), args: vec![("if".into(), v)] }]
                        } else {
                            self.directives(ch, "INLINE_FRAGMENT")
                        };
                        self.labels.insert("merged-composite-key-under-inline-fragment");
                        out.push(MSelection::Inline { on: None, directives, sel: vec![MSelection::Field(f2)] });
                    }
                }
            }
        }
        out
    }
}

pub fn vars_in_value(v: &MValue, out: &mut BTreeSet<String>) {
    match v {
        MValue::Var(n) => {
            out.insert(n.clone());
        }
        MValue::List(vs) => vs.iter().for_each(|v| vars_in_value(v, out)),
        MValue::Object(fs) => fs.iter().for_each(|(_, v)| vars_in_value(v, out)),
        _ => {}
    }
}

fn vars_in_dirs(ds: &[MDirective], out: &mut BTreeSet<String>) {
    for d in ds {
        for (_, v) in &d.args {
            vars_in_value(v, out);
        }
    }
}

/// variables used in a selection set, following fragment spreads transitively
pub fn vars_in_selections(
    sels: &[MSelection],
    frags: &BTreeMap<String, MFragment>,
    seen: &mut BTreeSet<String>,
    out: &mut BTreeSet<String>,
) {
    for s in sels {
        match s {
            MSelection::Field(f) => {
                for (_, v) in &f.args {
                    vars_in_value(v, out);
                }
                vars_in_dirs(&f.directives, out);
                if let Some(s) = &f.sel {
                    vars_in_selections(s, frags, seen, out);
                }
            }
            MSelection::Spread { name, directives } => {
                vars_in_dirs(directives, out);
                if seen.insert(name.clone()) {
                    if let Some(fr) = frags.get(name) {
                        vars_in_dirs(&fr.directives, out);
                        vars_in_selections(&fr.sel, frags, seen, out);
                    }
                }
            }
            MSelection::Inline { directives, sel, .. } => {
                vars_in_dirs(directives, out);
                vars_in_selections(sel, frags, seen, out);
            }
        }
    }
}

pub fn spreads_in_selections(sels: &[MSelection], frags: &BTreeMap<String, MFragment>, seen: &mut Vec<String>) {
    for s in sels {
        match s {
            MSelection::Field(f) => {
                if let Some(s) = &f.sel {
                    spreads_in_selections(s, frags, seen);
                }
            }
            MSelection::Spread { name, .. } => {
                if !seen.contains(name) {
                    seen.push(name.clone());
                    if let Some(fr) = frags.get(name) {
                        spreads_in_selections(&fr.sel, frags, seen);
                    }
                }
            }
            MSelection::Inline { sel, .. } => spreads_in_selections(sel, frags, seen),
        }
    }
}

/// does any selection (at this level, descending through fragments/inline fragments but not
/// into sub-fields) carry a variable-conditioned @skip/@include?
fn level_has_var_condition(sels: &[MSelection], frags: &BTreeMap<String, MFragment>, seen: &mut BTreeSet<String>) -> bool {
    let dirs_have = |ds: &[MDirective]| {
        ds.iter().any(|d| (d.name == "skip" || d.name == "include") && d.args.iter().any(|(k, v)| k == "if" && matches!(v, MValue::Var(_))))
    };
    for s in sels {
        match s {
            MSelection::Field(f) => {
                if dirs_have(&f.directives) {
                    return true;
                }
            }
            MSelection::Spread { name, directives } => {
                if dirs_have(directives) {
                    return true;
                }
                if seen.insert(name.clone()) {
                    if let Some(fr) = frags.get(name) {
                        if level_has_var_condition(&fr.sel, frags, seen) {
                            return true;
                        }
                    }
                }
            }
            MSelection::Inline { directives, sel, .. } => {
                if dirs_have(directives) || level_has_var_condition(sel, frags, seen) {
                    return true;
                }
            }
        }
    }
    false
}

/// collect, for one level (through fragments / inline fragments), fields grouped by key.
/// A fragment spread twice contributes twice: nitrogql's printer has no visited-fragments
/// set, so it merges a fragment's fields with themselves (`stack` only guards cycles).
fn level_fields<'b>(
    sels: &'b [MSelection],
    frags: &'b BTreeMap<String, MFragment>,
    stack: &mut BTreeSet<String>,
    out: &mut BTreeMap<String, Vec<&'b MFieldSel>>,
) {
    // in the order in which the printer merges them: the fields written at this level first, then those that
    // fragment spreads and inline fragments contribute
    for s in sels {
        if let MSelection::Field(f) = s {
            out.entry(f.key().to_string()).or_default().push(f);
        }
    }
    for s in sels {
        match s {
            MSelection::Field(_) => {}
            MSelection::Spread { name, .. } => {
                if stack.insert(name.clone()) {
                    if let Some(fr) = frags.get(name) {
                        level_fields(&fr.sel, frags, stack, out);
                    }
                    stack.remove(name);
                }
            }
            MSelection::Inline { sel, .. } => level_fields(sel, frags, stack, out),
        }
    }
}

/// The known C01 defect pattern: some level groups >= 2 composite fields under one key and
/// one of their sub-selections has a variable condition at its level. Conservative
/// (type conditions ignored => superset).
pub fn has_merged_key_with_var_condition(sels: &[MSelection], frags: &BTreeMap<String, MFragment>) -> bool {
    merged_key_with_var_condition_in(&[sels], frags)
}

/// `occurrences`: the sub-selections of the occurrences of one response key, in the order in which the printer
/// merges them (left to right); their fields meet under the same keys one level down
fn merged_key_with_var_condition_in(occurrences: &[&[MSelection]], frags: &BTreeMap<String, MFragment>) -> bool {
    let mut groups = BTreeMap::new();
    for sels in occurrences {
        // per occurrence: the fields written at the level first, then those contributed by fragments
        level_fields(sels, frags, &mut BTreeSet::new(), &mut groups);
    }
    for (_, fs) in groups {
        let subs: Vec<&[MSelection]> = fs.iter().filter_map(|f| f.sel.as_deref()).collect();
        // (the finding needs a variable condition in an occurrence other than the first one: branches of the
        // left operand are kept, those of the right operand are paired by type name only)
        if subs.len() >= 2 && subs.iter().skip(1).any(|s| level_has_var_condition(s, frags, &mut BTreeSet::new())) {
            return true;
        }
        if !subs.is_empty() && merged_key_with_var_condition_in(&subs, frags) {
            return true;
        }
    }
    false
}

fn strip_var_conditions(sels: &mut [MSelection]) {
    let fix = |ds: &mut Vec<MDirective>| {
        for d in ds.iter_mut() {
            if d.name == "skip" || d.name == "include" {
                for (k, v) in d.args.iter_mut() {
                    if k == "if" {
                        if let MValue::Var(_) = v {
                            *v = MValue::Bool(d.name == "include");
                        }
                    }
                }
            }
        }
    };
    for s in sels {
        match s {
            MSelection::Field(f) => {
                fix(&mut f.directives);
                if let Some(s) = &mut f.sel {
                    strip_var_conditions(s);
                }
            }
            MSelection::Spread { directives, .. } => fix(directives),
            MSelection::Inline { directives, sel, .. } => {
                fix(directives);
                strip_var_conditions(sel);
            }
        }
    }
}

pub fn frag_map(doc: &MOpDoc) -> BTreeMap<String, MFragment> {
    doc.iter()
        .filter_map(|d| match d {
            MExecDef::Frag(f) => Some((f.name.clone(), f.clone())),
            _ => None,
        })
        .collect()
}

// "User" is in both pools: operations and fragments have separate name spaces
const OP_NAMES: &[&str] = &["GetThings", "list", "Q1", "doIt", "watch", "userQuery", "A", "User"];
const FRAG_NAMES: &[&str] = &["F1", "UserParts", "frag", "NodeBits", "B", "User"];

/// Generate a valid document. Returns the doc and whether var-conditions were stripped.
pub fn gen_doc(ch: &mut Choices, s: &Schema, o: &DocGenOpts) -> (GenDoc, bool) {
    let mut cx = Ctx {
        s,
        o,
        variants: BTreeMap::new(),
        vars: vec![],
        frags: vec![],
        labels: BTreeSet::new(),
        allow_vars: o.variables,
    };
    let comps = composite_types(s);
    // fragments first (later fragments may spread earlier ones => acyclic)
    let nf = ch.below(o.max_frags + 1);
    let fnames = crate::gen_schema::pick_distinct(ch, FRAG_NAMES, nf);
    for name in fnames {
        let on = ch.pick(&comps).clone();
        let directives = if o.directives_everywhere { cx.directives(ch, "FRAGMENT_DEFINITION") } else { vec![] };
        let sel = cx.selection_set(ch, &on, 1);
        match s.kind(&on) {
            Some(Kind::Interface) => {
                cx.labels.insert("fragment-on-interface");
            }
            Some(Kind::Union) => {
                cx.labels.insert("fragment-on-union");
            }
            _ => {}
        }
        cx.frags.push(MFragment { name, on, directives, sel });
    }
    // operations
    let mut op_types = vec![OpType::Query];
    if s.root(OpType::Mutation).is_some() {
        op_types.push(OpType::Mutation);
    }
    if o.subscriptions && s.root(OpType::Subscription).is_some() {
        op_types.push(OpType::Subscription);
    }
    let anonymous = o.anonymous && ch.chance(1, 6);
    let nops = if anonymous { 1 } else { ch.range(if nf == 0 || o.all_fragments_used { 1 } else { 0 }, o.max_ops) };
    let onames = crate::gen_schema::pick_distinct(ch, OP_NAMES, nops);
    let mut ops: Vec<MOperation> = vec![];
    for i in 0..nops {
        let op = *ch.pick(&op_types);
        let root = s.root(op).unwrap();
        let directives = cx.directives(
            ch,
            match op {
                OpType::Query => "QUERY",
                OpType::Mutation => "MUTATION",
                OpType::Subscription => "SUBSCRIPTION",
            },
        );
        let sel = if op == OpType::Subscription {
            // exactly one root field (no __typename, no conditions on it)
            let save_skip = cx.o.skip_include;
            let mut o2 = cx.o.clone();
            o2.skip_include = false;
            let mut cx2 = Ctx { s, o: &o2, variants: cx.variants.clone(), vars: cx.vars.clone(), frags: cx.frags.clone(), labels: cx.labels.clone(), allow_vars: cx.allow_vars };
            let mut f;
            loop {
                f = cx2.field_selection(ch, &root, 0);
                if let MSelection::Field(fs) = &f {
                    if fs.name != "__typename" {
                        break;
                    }
                }
            }
            let _ = save_skip;
            cx.variants = cx2.variants;
            cx.vars = cx2.vars;
            cx.labels = cx2.labels;
            cx.labels.insert("subscription");
            vec![f]
        } else {
            cx.selection_set(ch, &root, 0)
        };
        ops.push(MOperation {
            op,
            name: if anonymous { None } else { Some(onames[i].clone()) },
            vars: vec![],
            directives,
            sel,
            shorthand: false,
        });
    }
    // make every fragment used, when requested
    let mut frags = cx.frags.clone();
    let fmap: BTreeMap<String, MFragment> = frags.iter().map(|f| (f.name.clone(), f.clone())).collect();
    if o.all_fragments_used {
        let mut used = vec![];
        for op in &ops {
            spreads_in_selections(&op.sel, &fmap, &mut used);
        }
        frags.retain(|f| used.contains(&f.name));
    }
    let fmap: BTreeMap<String, MFragment> = frags.iter().map(|f| (f.name.clone(), f.clone())).collect();

    // known-defect exclusion
    let mut stripped = false;
    if !o.merged_key_with_variable_condition {
        let bad = ops.iter().any(|op| has_merged_key_with_var_condition(&op.sel, &fmap))
            || frags.iter().any(|f| has_merged_key_with_var_condition(&f.sel, &fmap));
        if bad {
            stripped = true;
            for op in ops.iter_mut() {
                strip_var_conditions(&mut op.sel);
            }
            for f in frags.iter_mut() {
                strip_var_conditions(&mut f.sel);
            }
        }
    }
    let fmap: BTreeMap<String, MFragment> = frags.iter().map(|f| (f.name.clone(), f.clone())).collect();

    // variable definitions per operation: exactly the variables it (transitively) uses
    let var_table = cx.vars.clone();
    for op in ops.iter_mut() {
        let mut used = BTreeSet::new();
        vars_in_selections(&op.sel, &fmap, &mut BTreeSet::new(), &mut used);
        vars_in_dirs(&op.directives, &mut used);
        let mut defs: Vec<MVarDef> = var_table.iter().filter(|v| used.contains(&v.name)).cloned().collect();
        if o.directives_everywhere {
            for v in defs.iter_mut() {
                let mut c2 = Ctx { s, o, variants: BTreeMap::new(), vars: vec![], frags: vec![], labels: BTreeSet::new(), allow_vars: false };
                v.directives = c2.directives(ch, "VARIABLE_DEFINITION");
                if !v.directives.is_empty() {
                    cx.labels.insert("directive-on-variable-definition");
                }
            }
        }
        if ch.chance(1, 3) {
            ch.shuffle(&mut defs);
        }
        op.vars = defs;
    }
    let mut doc: MOpDoc = vec![];
    for f in frags {
        doc.push(MExecDef::Frag(f));
    }
    for op in ops {
        doc.push(MExecDef::Op(op));
    }
    if ch.chance(1, 2) {
        ch.shuffle(&mut doc);
    }
    (GenDoc { doc, labels: cx.labels }, stripped)
}

/// spec AreTypesCompatible(variableType, locationType)
pub fn types_compatible(var_ty: &MType, loc_ty: &MType) -> bool {
    match (var_ty, loc_ty) {
        (MType::NonNull(v), MType::NonNull(l)) => types_compatible(v, l),
        (_, MType::NonNull(_)) => false,
        (MType::NonNull(v), l) => types_compatible(v, l),
        (MType::List(v), MType::List(l)) => types_compatible(v, l),
        (MType::List(_), _) | (_, MType::List(_)) => false,
        (MType::Named(a), MType::Named(b)) => a == b,
    }
}

/// a type compatible with `loc` that is non-null at some levels where `loc` is nullable
pub fn stricter_type(ch: &mut Choices, loc: &MType) -> MType {
    match loc {
        MType::NonNull(inner) => MType::NonNull(Box::new(stricter_type_nullable(ch, inner))),
        other => {
            let t = stricter_type_nullable(ch, other);
            if ch.chance(1, 2) { MType::NonNull(Box::new(t)) } else { t }
        }
    }
}
fn stricter_type_nullable(ch: &mut Choices, t: &MType) -> MType {
    match t {
        MType::List(inner) => MType::List(Box::new(stricter_type(ch, inner))),
        other => other.clone(),
    }
}
