//! In-process replica of `nitrogql check|generate` built from the library crates
//! (cli/src/{main,check,generate}.rs). C17 checks byte equality with the real binary.

use crate::runner::{guard, panic_failure, Failure, PanicInfo};
use graphql_builtins::generate_builtins;
use nitrogql_ast::{
    base::{Ident, Keyword, Pos},
    operation::OperationDocument,
    r#type::{NamedType, NonNullType, Type},
    set_current_file_of_pos,
    type_system::{
        ArgumentsDefinition, DirectiveDefinition, InputValueDefinition, ScalarTypeDefinition, TypeDefinition,
        TypeSystemDefinition, TypeSystemDefinitionOrExtension,
    },
    TypeSystemDocument, TypeSystemOrExtensionDocument,
};
use nitrogql_checker::{check_operation_document, check_type_system_document, CheckError, OperationCheckContext};
use nitrogql_error::PositionedError;
use nitrogql_parser::{parse_operation_document, parse_type_system_document};
use nitrogql_semantics::{
    ast_to_type_system, resolve_operation_extensions, resolve_operation_imports, resolve_schema_extensions,
    OperationExtension, OperationResolver,
};
use serde_json::{json, Value};
use std::collections::HashMap;
use std::path::{Path, PathBuf};

#[derive(Clone, Debug, PartialEq, Eq)]
pub struct Diag {
    /// CheckErrorMessage variant name, or "Parse", "Extension", "Import", "OperationExtension"
    pub kind: String,
    pub message: String,
    pub file: usize,
    pub line: usize,
    pub col: usize,
    pub builtin: bool,
    pub has_pos: bool,
}

impl Diag {
    pub fn to_json(&self) -> Value {
        json!({"kind": self.kind, "message": self.message, "file": self.file, "line": self.line, "col": self.col})
    }
}

fn diag_of_check(e: &CheckError) -> Diag {
    let dbg = format!("{:?}", e.message);
    let kind: String = dbg.chars().take_while(|c| c.is_ascii_alphanumeric()).collect();
    Diag {
        kind,
        message: e.message.to_string(),
        file: e.position.file,
        line: e.position.line,
        col: e.position.column,
        builtin: e.position.builtin,
        has_pos: true,
    }
}

fn diag_of_positioned(kind: &str, pe: PositionedError) -> Diag {
    let pos = pe.position();
    Diag {
        kind: kind.to_string(),
        message: pe.into_inner().to_string(),
        file: pos.map(|p| p.file).unwrap_or(0),
        line: pos.map(|p| p.line).unwrap_or(0),
        col: pos.map(|p| p.column).unwrap_or(0),
        builtin: pos.map(|p| p.builtin).unwrap_or(false),
        has_pos: pos.is_some(),
    }
}

pub fn nitrogql_builtins() -> Vec<TypeSystemDefinitionOrExtension<'static>> {
    fn ident(name: &str) -> Ident {
        Ident { name, position: Pos::builtin() }
    }
    vec![TypeSystemDefinitionOrExtension::DirectiveDefinition(DirectiveDefinition {
        directive_keyword: Keyword { name: "directive", position: Pos::builtin() },
        position: Pos::builtin(),
        name: ident("nitrogql_ts_type"),
        description: None,
        arguments: Some(ArgumentsDefinition {
            input_values: ["resolverInput", "resolverOutput", "operationInput", "operationOutput"]
                .into_iter()
                .map(|name| InputValueDefinition {
                    description: None,
                    position: Pos::builtin(),
                    name: ident(name),
                    r#type: Type::NonNull(Box::new(NonNullType { r#type: Type::Named(NamedType { name: ident("String") }) })),
                    default_value: None,
                    directives: vec![],
                })
                .collect(),
        }),
        repeatable: None,
        locations: vec![ident("SCALAR")],
    })]
}

/// cli/src/builtins.rs remove_builtins (replicated; the binary's own copy is exercised by
/// the CLI-driven checks)
pub fn remove_builtins<'src>(schema: &TypeSystemDocument<'src>) -> TypeSystemDocument<'src> {
    let definitions = schema
        .definitions
        .iter()
        .cloned()
        .filter_map(|d| match d {
            TypeSystemDefinition::DirectiveDefinition(def) => {
                (def.name.name != "nitrogql_ts_type").then_some(TypeSystemDefinition::DirectiveDefinition(def))
            }
            TypeSystemDefinition::SchemaDefinition(_) => Some(d),
            TypeSystemDefinition::TypeDefinition(def) => {
                if let TypeDefinition::Scalar(def) = def {
                    return Some(TypeSystemDefinition::TypeDefinition(TypeDefinition::Scalar(ScalarTypeDefinition {
                        directives: def.directives.into_iter().filter(|d| d.name.name != "nitrogql_ts_type").collect(),
                        ..def
                    })));
                }
                Some(TypeSystemDefinition::TypeDefinition(def))
            }
        })
        .collect();
    TypeSystemDocument { definitions }
}

pub struct SchemaStage<'src> {
    /// resolved document incl. builtins (None when parsing/resolution failed)
    pub doc: Option<TypeSystemDocument<'src>>,
    /// command-level errors (parse / extension resolution)
    pub command_errors: Vec<Diag>,
    /// check diagnostics
    pub errors: Vec<Diag>,
}

impl SchemaStage<'_> {
    pub fn ok(&self) -> bool {
        self.doc.is_some() && self.command_errors.is_empty() && self.errors.is_empty()
    }
    pub fn all_diags(&self) -> Vec<Diag> {
        self.command_errors.iter().chain(self.errors.iter()).cloned().collect()
    }
}

/// Parse, merge, add builtins, resolve extensions, check. File indices start at 0.
pub fn schema_stage<'src>(files: &'src [(PathBuf, String)], detail: &Value) -> Result<SchemaStage<'src>, Failure> {
    let mut docs = vec![];
    let mut command_errors = vec![];
    for (i, (_, text)) in files.iter().enumerate() {
        set_current_file_of_pos(i);
        let r = guard(|| parse_type_system_document(text)).map_err(|p| panic_failure("parse_type_system_document", &p, detail.clone()))?;
        match r {
            Ok(d) => docs.push(d),
            Err(e) => command_errors.push(diag_of_positioned("Parse", e.into())),
        }
    }
    if !command_errors.is_empty() {
        return Ok(SchemaStage { doc: None, command_errors, errors: vec![] });
    }
    let mut merged = TypeSystemOrExtensionDocument::merge(docs);
    merged.extend(generate_builtins());
    merged.extend(nitrogql_builtins());
    let resolved = guard(|| resolve_schema_extensions(merged)).map_err(|p| panic_failure("resolve_schema_extensions", &p, detail.clone()))?;
    let doc = match resolved {
        Ok(d) => d,
        Err(e) => {
            // cli/check.rs: resolve errors are reported as schema check errors
            return Ok(SchemaStage { doc: None, command_errors: vec![], errors: vec![diag_of_positioned("Extension", e.into())] });
        }
    };
    let errs = guard(|| check_type_system_document(&doc)).map_err(|p| panic_failure("check_type_system_document", &p, detail.clone()))?;
    let errors: Vec<Diag> = errs.iter().map(diag_of_check).collect();
    Ok(SchemaStage { doc: Some(doc), command_errors, errors })
}

pub struct OpFile<'src> {
    pub path: PathBuf,
    pub doc: OperationDocument<'src>,
    pub ext: OperationExtension<'src>,
    pub file_index: usize,
}

pub struct OpStage<'src> {
    /// documents after import resolution (empty when a command-level error occurred)
    pub files: Vec<OpFile<'src>>,
    pub command_errors: Vec<Diag>,
    /// resolution errors (reported as operation check errors by the CLI)
    pub resolve_errors: Vec<Diag>,
    pub errors: Vec<Diag>,
}

impl OpStage<'_> {
    pub fn all_diags(&self) -> Vec<Diag> {
        self.command_errors.iter().chain(self.resolve_errors.iter()).chain(self.errors.iter()).cloned().collect()
    }
}

struct Ops<'a, 'src> {
    by_path: HashMap<&'a Path, (&'a OperationDocument<'src>, &'a OperationExtension<'src>)>,
}
impl<'src> OperationResolver<'src> for Ops<'_, 'src> {
    fn resolve(&self, path: &Path) -> Option<(&OperationDocument<'src>, &OperationExtension<'src>)> {
        self.by_path.get(path).copied()
    }
}

/// Parse operation files (file indices continue after the schema files), resolve
/// extensions and imports, check against the schema document.
pub fn op_stage<'src>(
    schema_doc: &TypeSystemDocument<'src>,
    n_schema_files: usize,
    files: &'src [(PathBuf, String)],
    detail: &Value,
) -> Result<OpStage<'src>, Failure> {
    op_stage_with(schema_doc, None, n_schema_files, files, detail)
}

/// `schema_value`: the schema value to check against when it does not come from `schema_doc` (introspection
/// route: the CLI checks operations against the value read from the JSON, not against the re-created AST)
pub fn op_stage_with<'src>(
    schema_doc: &TypeSystemDocument<'src>,
    schema_value: Option<&graphql_type_system::Schema<std::borrow::Cow<'_, str>, Pos>>,
    n_schema_files: usize,
    files: &'src [(PathBuf, String)],
    detail: &Value,
) -> Result<OpStage<'src>, Failure> {
    let mut parsed = vec![];
    let mut command_errors = vec![];
    for (i, (path, text)) in files.iter().enumerate() {
        let idx = n_schema_files + i;
        set_current_file_of_pos(idx);
        let r = guard(|| parse_operation_document(text)).map_err(|p| panic_failure("parse_operation_document", &p, detail.clone()))?;
        match r {
            Ok(d) => parsed.push((path.clone(), d, idx)),
            Err(e) => command_errors.push(diag_of_positioned("Parse", e.into())),
        }
    }
    if !command_errors.is_empty() {
        return Ok(OpStage { files: vec![], command_errors, resolve_errors: vec![], errors: vec![] });
    }
    let mut resolve_errors = vec![];
    let mut step1 = vec![];
    for (path, doc, idx) in parsed {
        let r = guard(|| resolve_operation_extensions(doc)).map_err(|p| panic_failure("resolve_operation_extensions", &p, detail.clone()))?;
        match r {
            Ok((d, e)) => step1.push((path, d, e, idx)),
            Err(e) => resolve_errors.push(diag_of_positioned("OperationExtension", e.into())),
        }
    }
    if !resolve_errors.is_empty() {
        return Ok(OpStage { files: vec![], command_errors, resolve_errors, errors: vec![] });
    }
    let resolver = Ops { by_path: step1.iter().map(|(p, d, e, _)| (p.as_path(), (d, e))).collect() };
    let mut out = vec![];
    for (path, doc, ext, idx) in step1.iter() {
        let r = guard(|| resolve_operation_imports((path, doc, ext), &resolver))
            .map_err(|p| panic_failure("resolve_operation_imports", &p, detail.clone()))?;
        match r {
            Ok(d) => out.push(OpFile { path: path.clone(), doc: d, ext: ext.clone(), file_index: *idx }),
            Err(e) => resolve_errors.push(diag_of_positioned("Import", e.into())),
        }
    }
    if !resolve_errors.is_empty() {
        return Ok(OpStage { files: vec![], command_errors, resolve_errors, errors: vec![] });
    }
    let converted;
    let schema = match schema_value {
        Some(s) => s,
        None => {
            converted = ast_to_type_system(schema_doc);
            &converted
        }
    };
    let ctx = OperationCheckContext::new(schema);
    let mut errors = vec![];
    for f in &out {
        let errs = guard(|| check_operation_document(&f.doc, &ctx)).map_err(|p| panic_failure("check_operation_document", &p, detail.clone()))?;
        errors.extend(errs.iter().map(diag_of_check));
    }
    Ok(OpStage { files: out, command_errors, resolve_errors, errors })
}

pub fn panic_to_failure(stage: &str, p: &PanicInfo, detail: &Value) -> Failure {
    panic_failure(stage, p, detail.clone())
}

// ---------------------------------------------------------------------------
// generate stage

use nitrogql_printer::{
    print_types_for_operation_document, OperationTypePrinterOptions, ResolverTypePrinter, ResolverTypePrinterOptions,
    SchemaTypePrinter, SchemaTypePrinterOptions,
};
use sourcemap_writer::{SourceWriter, SourceWriterBuffers};

#[derive(Clone)]
pub struct SchemaGenConfig {
    pub scalar_types: HashMap<String, nitrogql_config_file::ScalarTypeConfig>,
    pub allow_undefined_as_optional_input: bool,
    pub emit_schema_runtime: bool,
}

impl SchemaGenConfig {
    /// graphql.config.yaml text carrying exactly these options
    pub fn to_config_yaml(&self) -> String {
        use nitrogql_config_file::ScalarTypeConfig as C;
        let q = |s: &str| serde_json::to_string(s).unwrap();
        let mut y = String::from("schema: s.graphql\ndocuments: o.graphql\nextensions:\n  nitrogql:\n    generate:\n");
        y.push_str(&format!("      emitSchemaRuntime: {}\n", self.emit_schema_runtime));
        y.push_str("      type:\n");
        y.push_str(&format!("        allowUndefinedAsOptionalInput: {}\n", self.allow_undefined_as_optional_input));
        if !self.scalar_types.is_empty() {
            y.push_str("        scalarTypes:\n");
            let mut keys: Vec<&String> = self.scalar_types.keys().collect();
            keys.sort();
            for k in keys {
                match &self.scalar_types[k] {
                    C::Single(s) => y.push_str(&format!("          {k}: {}\n", q(s))),
                    C::SendReceive(sr) => y.push_str(&format!("          {k}:\n            send: {}\n            receive: {}\n", q(&sr.send), q(&sr.receive))),
                    C::Separate(c) => y.push_str(&format!(
                        "          {k}:\n            resolverInput: {}\n            resolverOutput: {}\n            operationInput: {}\n            operationOutput: {}\n",
                        q(&c.resolver_input),
                        q(&c.resolver_output),
                        q(&c.operation_input),
                        q(&c.operation_output)
                    )),
                }
            }
        }
        y
    }
}

/// The declaration files as the built CLI leaves them in a directory in which `generate` already ran with
/// `earlier` (other options, same inputs): (schema declarations, operation declarations, resolvers declarations).
/// `schema_files`: (file name, text), `.graphqls` or `.json`.
pub fn cli_generate_after_earlier_run(
    schema_files: &[(String, String)],
    op_text: &str,
    cfg: &SchemaGenConfig,
    earlier: &SchemaGenConfig,
    model_plugin: bool,
    detail: &Value,
) -> Result<(String, String, String), Failure> {
    use crate::cli::{run_cli, Project};
    static BASE: std::sync::OnceLock<PathBuf> = std::sync::OnceLock::new();
    let base = BASE.get_or_init(|| crate::runner::work_dir("cli-history"));
    let proj = Project::new(base);
    let schema_glob = if schema_files.iter().any(|f| f.0.ends_with(".json")) { format!("./{}", schema_files[0].0) } else { "./*.graphqls".to_string() };
    let yaml = |c: &SchemaGenConfig| -> String {
        let mut y = c.to_config_yaml().replacen("schema: s.graphql\ndocuments: o.graphql", &format!("schema: \"{schema_glob}\"\ndocuments: ./ops.graphql"), 1);
        if model_plugin {
            y = y.replacen("  nitrogql:\n", "  nitrogql:\n    plugins:\n      - \"nitrogql:model-plugin\"\n", 1);
        }
        // (a schema file with runtime code cannot be a .d.ts)
        let out = if c.emit_schema_runtime { "./schema.ts" } else { "./schema.d.ts" };
        format!("{y}      schemaOutput: {out}\n      resolversOutput: ./resolvers.d.ts\n")
    };
    for (n, t) in schema_files {
        proj.write(n, t);
    }
    proj.write("ops.graphql", op_text);
    proj.write("graphql.config.yaml", &yaml(earlier));
    let r1 = run_cli(&proj.dir, &["generate", "--output-format", "json"]);
    proj.write("graphql.config.yaml", &yaml(cfg));
    let r2 = run_cli(&proj.dir, &["generate", "--output-format", "json"]);
    let out = (proj.read(if cfg.emit_schema_runtime { "schema.ts" } else { "schema.d.ts" }), proj.read("ops.d.graphql.ts"), proj.read("resolvers.d.ts"));
    let d2 = json!({"detail": detail, "config": yaml(cfg), "earlier_config": yaml(earlier), "first_run": r1.stdout.chars().take(300).collect::<String>(), "second_run": r2.stdout.chars().take(300).collect::<String>(), "stderr": r2.stderr.chars().take(300).collect::<String>()});
    proj.remove();
    if r1.crashed() || r2.crashed() || r2.status != Some(0) {
        return Err(Failure::new("cli-generate-failed", format!("generate exits {:?} then {:?} on a valid project", r1.status, r2.status), d2));
    }
    match out {
        (Some(a), Some(b), Some(c)) => Ok((a, b, c)),
        _ => Err(Failure::new("declaration-file-missing", "generate did not write schema.d.ts / ops.d.graphql.ts / resolvers.d.ts", d2)),
    }
}

/// another configuration for the same inputs: every option the declaration files depend on differs
pub fn other_schema_gen_config(cfg: &SchemaGenConfig) -> SchemaGenConfig {
    use nitrogql_config_file::ScalarTypeConfig as C;
    let mut o = cfg.clone();
    o.allow_undefined_as_optional_input = !cfg.allow_undefined_as_optional_input;
    // (emitSchemaRuntime decides the name of the schema output; it stays, so that the same files are written again)
    for v in o.scalar_types.values_mut() {
        *v = C::Single("symbol".into());
    }
    o
}

/// operation type printer options built the way the CLI builds them (configuration text -> parse_config ->
/// OperationTypePrinterOptions::from_config), so that the mapping from configuration to options is under test
pub fn op_options_from(cfg: &SchemaGenConfig) -> OperationTypePrinterOptions {
    let config = nitrogql_config_file::parse_config(&cfg.to_config_yaml()).expect("harness configuration must parse");
    let mut o = OperationTypePrinterOptions::from_config(&config);
    o.schema_source = "./schema".into();
    o
}

impl Default for SchemaGenConfig {
    fn default() -> Self {
        SchemaGenConfig { scalar_types: HashMap::new(), allow_undefined_as_optional_input: true, emit_schema_runtime: false }
    }
}

/// schema .d.ts exactly as cli/src/generate.rs builds it (file index mapper = identity for
/// schema files). Returns Err(message) for a printer error value.
pub fn gen_schema_dts(
    doc: &TypeSystemDocument,
    cfg: &SchemaGenConfig,
    file_index_mapper: Option<Vec<usize>>,
    detail: &Value,
) -> Result<Result<SourceWriterBuffers, String>, Failure> {
    // the options are built the way the CLI builds them: configuration text -> parse_config ->
    // SchemaTypePrinterOptions::from_config (so that the merge of configured scalar types with the
    // built-in ones is the code under test, not a copy of it)
    let yaml = cfg.to_config_yaml();
    let config = nitrogql_config_file::parse_config(&yaml).ok_or_else(|| Failure::new("harness:config", format!("harness configuration rejected: {yaml}"), detail.clone()))?;
    guard(|| {
        let options = SchemaTypePrinterOptions::from_config(&config);
        let mut writer = SourceWriter::new();
        if let Some(m) = file_index_mapper {
            writer.set_file_index_mapper(m);
        }
        let mut printer = SchemaTypePrinter::new(options, &mut writer);
        match printer.print_document(doc) {
            Ok(()) => Ok(writer.into_buffers()),
            Err(e) => Err(format!("{e:?}")),
        }
    })
    .map_err(|p| panic_failure("SchemaTypePrinter", &p, detail.clone()))
}

pub fn gen_resolvers_dts(
    doc: &TypeSystemDocument,
    schema_source: &str,
    file_index_mapper: Option<Vec<usize>>,
    detail: &Value,
) -> Result<Result<SourceWriterBuffers, String>, Failure> {
    guard(|| {
        let mut options = ResolverTypePrinterOptions::default();
        options.schema_source = schema_source.to_string();
        let mut writer = SourceWriter::new();
        if let Some(m) = file_index_mapper {
            writer.set_file_index_mapper(m);
        }
        let mut printer = ResolverTypePrinter::new(options, &mut writer);
        let plugins: Vec<nitrogql_plugin::Plugin> = vec![];
        match printer.print_document(doc, &plugins) {
            Ok(()) => Ok(writer.into_buffers()),
            Err(e) => Err(format!("{e:?}")),
        }
    })
    .map_err(|p| panic_failure("ResolverTypePrinter", &p, detail.clone()))
}

pub fn gen_operation_dts(
    schema_doc: &TypeSystemDocument,
    op: &OperationDocument,
    options: OperationTypePrinterOptions,
    file_index_mapper: Option<Vec<usize>>,
    detail: &Value,
) -> Result<SourceWriterBuffers, Failure> {
    gen_operation_dts_with(schema_doc, None, op, options, file_index_mapper, detail)
}

pub fn gen_operation_dts_with(
    schema_doc: &TypeSystemDocument,
    schema_value: Option<&graphql_type_system::Schema<std::borrow::Cow<'_, str>, Pos>>,
    op: &OperationDocument,
    options: OperationTypePrinterOptions,
    file_index_mapper: Option<Vec<usize>>,
    detail: &Value,
) -> Result<SourceWriterBuffers, Failure> {
    guard(|| {
        let converted;
        let schema = match schema_value {
            Some(s) => s,
            None => {
                converted = ast_to_type_system(schema_doc);
                &converted
            }
        };
        let mut writer = SourceWriter::new();
        if let Some(m) = file_index_mapper {
            writer.set_file_index_mapper(m);
        }
        print_types_for_operation_document(options, schema, op, &mut writer);
        writer.into_buffers()
    })
    .map_err(|p| panic_failure("print_types_for_operation_document", &p, detail.clone()))
}

/// The schema as the CLI holds it when the schema file is an introspection result (main.rs load_schema:
/// schema_from_introspection_json). The declaration printers then get `type_system_to_ast(&value)`.
pub fn schema_via_introspection<'a>(
    json_text: &'a str,
    detail: &Value,
) -> Result<graphql_type_system::Schema<std::borrow::Cow<'a, str>, Pos>, Failure> {
    let r = guard(|| nitrogql_introspection::schema_from_introspection_json::<Pos>(json_text))
        .map_err(|p| panic_failure("schema_from_introspection_json", &p, detail.clone()))?;
    r.map_err(|e| Failure::new("precondition:introspection-rejected", format!("{e:?}"), detail.clone()))
}
