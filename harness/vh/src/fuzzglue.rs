//! Glue between the cargo-fuzz targets (harness/fuzz) and the C08 oracle: the semantic oracle
//! runs inside the target; failures that match an *open* known finding are tolerated (counted
//! on stderr at exit is not possible under libFuzzer, so they are simply skipped) unless
//! VH_FUZZ_STRICT=1 (replay mode); any other failure aborts so that libFuzzer saves the input.

use crate::choices::Choices;
use crate::props::c08;
use crate::runner::{guard, install_panic_hook, panic_failure, Case, Failure, Known};
use nitrogql_config_file::Config;
use serde_json::Value;
use std::collections::BTreeSet;
use std::path::PathBuf;
use std::sync::OnceLock;

struct Glue {
    known: Known,
    strict: bool,
    cfgs: Vec<Config>,
    excluded: BTreeSet<String>,
}

fn glue() -> &'static Glue {
    static G: OnceLock<Glue> = OnceLock::new();
    G.get_or_init(|| {
        install_panic_hook();
        let known = Known::load();
        let strict = std::env::var("VH_FUZZ_STRICT").is_ok();
        let excluded = if strict { BTreeSet::new() } else { known.excluded_flags() };
        Glue { known, strict, cfgs: c08::configs(), excluded }
    })
}

pub fn run(target: &str, f: impl FnOnce() -> Result<(), Failure>) {
    run_for("C08", target, f)
}

pub fn run_for(property: &str, target: &str, f: impl FnOnce() -> Result<(), Failure>) {
    let g = glue();
    let r = match guard(f) {
        Ok(r) => r,
        Err(p) => Err(panic_failure("uncaught", &p, Value::Null)),
    };
    if let Err(fl) = r {
        if !g.strict && g.known.match_open(property, &fl.signature).is_some() {
            return;
        }
        eprintln!("FUZZ-FAILURE target={target} signature={} message={}", fl.signature, fl.message);
        std::process::abort();
    }
}

pub fn parsers_only(text: &str) -> Result<(), Failure> {
    if text.len() > 8192 || c08::nesting(text) > 64 {
        return Ok(());
    }
    c08::parsers_only_text(text).map(|_| ())
}

pub fn project(schema: &str, op: &str) -> Result<(), Failure> {
    if schema.len() > 8192 || op.len() > 8192 || c08::nesting(schema) > 64 || c08::nesting(op) > 64 {
        return Ok(());
    }
    let g = glue();
    let sf = vec![(PathBuf::from("/p/s.graphql"), schema.to_string())];
    let of = vec![(PathBuf::from("/p/o.graphql"), op.to_string())];
    if !g.strict && g.excluded.contains("generate_exponential_nested_merge") && c08::exponential_generate(&sf, &of) {
        return Ok(());
    }
    let cfg = &g.cfgs[(schema.len() + op.len()) % g.cfgs.len()];
    c08::run_pipeline(&sf, &of, cfg, &Value::Null).map(|_| ())
}

pub fn structured(data: &[u8]) -> Result<(), Failure> {
    if data.is_empty() {
        return Ok(());
    }
    let g = glue();
    let which = data[0] % 6;
    let mut case = Case::new(Choices::from_bytes(&data[1..]), &g.excluded, false);
    c08::pipeline_case(&mut case, "structured", which, &g.cfgs)
}

/// schema text = the bytes as an introspection result (`.json` schema file), with a trivial operation: everything the
/// CLI runs for such a schema (C08 campaign introspection-json, here coverage-guided on the JSON text itself)
pub fn json_schema(text: &str) -> Result<(), Failure> {
    if text.len() > 16384 || text.bytes().filter(|b| *b == b'[' || *b == b'{').count() > 4000 {
        return Ok(());
    }
    let g = glue();
    let ops = vec![(std::path::PathBuf::from("/p/ops.graphql"), "query Q { __typename }\n".to_string())];
    let gate = g.excluded.contains("introspection_invalid_schema");
    c08::run_pipeline_json(text, &ops, &g.cfgs[0], &serde_json::json!({"schema_json": text}), gate).map(|_| ())
}

/// like `structured`, printing the generated texts first (debugging aid for artifacts)
pub fn structured_verbose(data: &[u8]) -> Result<(), Failure> {
    if data.is_empty() {
        return Ok(());
    }
    let g = glue();
    let which = data[0] % 6;
    let mut case = Case::new(Choices::from_bytes(&data[1..]), &g.excluded, true);
    let t0 = std::time::Instant::now();
    let t = c08::gen_texts(&mut case, which);
    println!("generated in {:?} (mode {})", t0.elapsed(), t.mode);
    for (p, s) in t.schema.iter().chain(t.ops.iter()) {
        println!("--- {} ({} bytes)\n{}", p.display(), s.len(), s);
    }
    let st: Vec<&str> = t.schema.iter().map(|x| x.1.as_str()).collect();
    let ot: Vec<&str> = t.ops.iter().map(|x| x.1.as_str()).collect();
    println!("work estimate: {}", c08::work_estimate_texts(&st, &ot, u64::MAX / 4));
    let t1 = std::time::Instant::now();
    let r = c08::run_pipeline(&t.schema, &t.ops, &g.cfgs[0], &Value::Null).map(|r| println!("reached {r:?}"));
    println!("pipeline in {:?}", t1.elapsed());
    r
}

/// C07 differential oracle: the reference parser accepts => nitrogql accepts, builds the same
/// abstract document and reports token-true positions. Texts using a feature excluded by an open
/// known finding (block strings that need cooking, body-less object / member-less union types) are
/// skipped, so anything reported is a different violation.
pub fn parse_diff(text: &str) -> Result<(), Failure> {
    use crate::conv::*;
    use crate::model::*;
    use crate::refparse;
    use nitrogql_parser::{parse_operation_document, parse_type_system_document};
    if text.len() > 8192 || c08::nesting(text) > 64 {
        return Ok(());
    }
    let g = glue();
    if text.contains("\"\"\"") && g.excluded.contains("block_string_cooked") {
        return Ok(());
    }
    // a lone CR is a line terminator in the spec but not for pest positions (documented abstention)
    let lone_cr = {
        let b = text.as_bytes();
        (0..b.len()).any(|i| b[i] == b'\r' && b.get(i + 1) != Some(&b'\n'))
    };
    let detail = serde_json::json!({"text": text});
    if let Ok(expected) = refparse::parse_op_doc(text) {
        let expected = crate::props::c07::normalize_op_doc(&expected);
        let got = guard(|| parse_operation_document(text).map(|d| c_op_doc_ext(&d, &mut PosSink::default())))
            .map_err(|p| panic_failure("parse_operation_document", &p, detail.clone()))?;
        let got = got.map(|m| m);
        match got {
            Ok(m) if m == expected => {
                if !lone_cr && !text.contains('\u{FEFF}') {
                    let mut ps = PosSink::default();
                    if let Ok(d) = parse_operation_document(text) {
                        let _ = c_op_doc_ext(&d, &mut ps);
                    }
                    check_positions_lex(text, true, &ps.recs, &detail)?;
                }
            }
            Ok(m) => return Err(Failure::new("parse-diff:wrong-operation-document", format!("expected {expected:?}\n got {m:?}"), detail)),
            Err(e) => return Err(Failure::new("parse-diff:rejects-valid-operation-document", e.into_message(), detail)),
        }
    }
    if let Ok(expected) = refparse::parse_ts_doc(text) {
        let bare = expected.iter().any(|d| match d {
            MTsDef::Type(t) | MTsDef::TypeExt(t) => match t.kind {
                Kind::Object | Kind::Interface | Kind::Input => t.fields.is_empty() && t.input_fields.is_empty(),
                Kind::Union => t.members.is_empty(),
                Kind::Enum => t.values.is_empty(),
                Kind::Scalar => false,
            },
            _ => false,
        });
        if bare && (g.excluded.contains("bare_object_type") || g.excluded.contains("bare_union_type")) {
            return Ok(());
        }
        let got = guard(|| parse_type_system_document(text).map(|d| c_ts_ext_doc(&d, &mut PosSink::default())))
            .map_err(|p| panic_failure("parse_type_system_document", &p, detail.clone()))?;
        match got {
            Ok(m) if m == expected => {
                if !lone_cr && !text.contains('\u{FEFF}') {
                    let mut ps = PosSink::default();
                    if let Ok(d) = parse_type_system_document(text) {
                        let _ = c_ts_ext_doc(&d, &mut ps);
                    }
                    check_positions_lex(text, false, &ps.recs, &detail)?;
                }
            }
            Ok(m) => return Err(Failure::new("parse-diff:wrong-type-system-document", format!("expected {expected:?}\n got {m:?}"), detail)),
            Err(e) => return Err(Failure::new("parse-diff:rejects-valid-type-system-document", e.into_message(), detail)),
        }
    }
    Ok(())
}

/// every reported position must be the start of a token of the right text (reference lexer)
fn check_positions_lex(text: &str, ext_import: bool, recs: &[crate::conv::PosRec], detail: &Value) -> Result<(), Failure> {
    let toks = if ext_import { crate::refparse::parse_op_doc_toks(text).map(|x| x.1) } else { crate::refparse::lex(text, false) };
    let Ok(toks) = toks else { return Ok(()) };
    for rec in recs {
        if rec.builtin {
            return Err(Failure::new("parse-diff:position-builtin", format!("{} carries a builtin position", rec.what), detail.clone()));
        }
        let ok = toks.iter().any(|t| {
            t.line == rec.line
                && (t.col == rec.col || t.col16 == rec.col)
                && (if rec.expect == "\"" { t.raw.starts_with('"') } else if rec.what == "operation" { t.raw == rec.expect || t.raw == "{" } else { t.raw == rec.expect })
        });
        if !ok {
            return Err(Failure::new(
                format!("parse-diff:position-not-at-token:{}", rec.what),
                format!("{} reported at {}:{} but no token {:?} starts there", rec.what, rec.line, rec.col, rec.expect),
                detail.clone(),
            ));
        }
    }
    Ok(())
}

/// C16 part B: parse(print(A)) = A for every document nitrogql parses. Documents containing a string that
/// hits an open printer finding (quote/backslash, line break) or a member-less `extend union` are skipped.
pub fn print_roundtrip(text: &str) -> Result<(), Failure> {
    use crate::model::*;
    use nitrogql_parser::{parse_operation_document, parse_type_system_document};
    if text.len() > 8192 || c08::nesting(text) > 64 {
        return Ok(());
    }
    let g = glue();
    let no_quote = g.excluded.contains("print_string_quote_backslash");
    let no_multiline = g.excluded.contains("print_multiline_string");
    let no_union_ext = g.excluded.contains("print_extend_union_directives_only");
    let bad_string = |s: &String| (no_quote && (s.contains('"') || s.contains('\\'))) || (no_multiline && (s.contains('\n') || s.contains('\r')));
    // block strings are returned raw by the parser (open finding C07-block-string-raw): what is printed back
    // depends on that, so texts with block strings are left to the C07 finding
    if text.contains("\"\"\"") && g.excluded.contains("block_string_cooked") {
        return Ok(());
    }
    if guard(|| parse_operation_document(text).is_ok()).unwrap_or(false) {
        let mut skip = false;
        match crate::refparse::parse_op_doc(text) {
            Ok(d) => {
                let mut d2 = d;
                map_op_strings(&mut d2, &mut |s: &mut String| skip |= bad_string(s));
            }
            Err(_) => skip = true,
        }
        match crate::props::c16::roundtrip_op(text) {
            Ok((a, printed, b)) => {
                if !skip && a != b {
                    return Err(Failure::new("roundtrip-differs:op", format!("parse(print(A)) != A\nprinted: {printed}"), serde_json::json!({"text": text, "printed": printed})));
                }
            }
            Err(f) => {
                if !skip {
                    return Err(f);
                }
            }
        }
    }
    if guard(|| parse_type_system_document(text).is_ok()).unwrap_or(false) {
        let parsed = crate::props::c16::roundtrip_ts(text);
        // a printed text that does not parse is only excusable by an excluded feature
        let mut skip = false;
        if let Ok(d) = crate::refparse::parse_ts_doc(text) {
            let mut d2 = d.clone();
            map_ts_strings(&mut d2, &mut |s: &mut String| skip |= bad_string(s));
            if no_union_ext && d.iter().any(|x| matches!(x, MTsDef::TypeExt(t) if t.kind == Kind::Union && t.members.is_empty())) {
                skip = true;
            }
        } else {
            // nitrogql accepts a text the reference parser rejects: not this target's business
            skip = true;
        }
        match parsed {
            Ok((a, printed, b)) => {
                if !skip && a != b {
                    return Err(Failure::new("roundtrip-differs:ts", format!("parse(print(A)) != A\nprinted: {printed}"), serde_json::json!({"text": text, "printed": printed})));
                }
            }
            Err(f) => {
                if !skip {
                    return Err(f);
                }
            }
        }
    }
    Ok(())
}
