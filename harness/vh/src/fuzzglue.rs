//! Glue between the cargo-fuzz targets (harness/fuzz) and the C08 oracle: the semantic oracle
//! runs inside the target; failures that match an *open* known finding are tolerated (counted
//! on stderr at exit is not possible under libFuzzer, so they are simply skipped) unless
//! VH_FUZZ_STRICT=1 (replay mode); any other failure aborts so that libFuzzer saves the input.

use crate::choices::Choices;
use crate::props::c08;
use crate::runner::{guard, install_panic_hook, panic_failure, Case, Failure, Known};
use nitrogql_config_file::Config;
use serde_json::Value;
use std::collections::BTreeSet;
use std::path::PathBuf;
use std::sync::OnceLock;

struct Glue {
    known: Known,
    strict: bool,
    cfgs: Vec<Config>,
    excluded: BTreeSet<String>,
}

fn glue() -> &'static Glue {
    static G: OnceLock<Glue> = OnceLock::new();
    G.get_or_init(|| {
        install_panic_hook();
        let known = Known::load();
        let strict = std::env::var("VH_FUZZ_STRICT").is_ok();
        let excluded = if strict { BTreeSet::new() } else { known.excluded_flags() };
        Glue { known, strict, cfgs: c08::configs(), excluded }
    })
}

pub fn run(target: &str, f: impl FnOnce() -> Result<(), Failure>) {
    let g = glue();
    let r = match guard(f) {
        Ok(r) => r,
        Err(p) => Err(panic_failure("uncaught", &p, Value::Null)),
    };
    if let Err(fl) = r {
        if !g.strict && g.known.match_open("C08", &fl.signature).is_some() {
            return;
        }
        eprintln!("FUZZ-FAILURE target={target} signature={} message={}", fl.signature, fl.message);
        std::process::abort();
    }
}

pub fn parsers_only(text: &str) -> Result<(), Failure> {
    if text.len() > 8192 || c08::nesting(text) > 64 {
        return Ok(());
    }
    c08::parsers_only_text(text).map(|_| ())
}

pub fn project(schema: &str, op: &str) -> Result<(), Failure> {
    if schema.len() > 8192 || op.len() > 8192 || c08::nesting(schema) > 64 || c08::nesting(op) > 64 {
        return Ok(());
    }
    let g = glue();
    let sf = vec![(PathBuf::from("/p/s.graphql"), schema.to_string())];
    let of = vec![(PathBuf::from("/p/o.graphql"), op.to_string())];
    if !g.strict && g.excluded.contains("generate_exponential_nested_merge") && c08::exponential_generate(&sf, &of) {
        return Ok(());
    }
    let cfg = &g.cfgs[(schema.len() + op.len()) % g.cfgs.len()];
    c08::run_pipeline(&sf, &of, cfg, &Value::Null).map(|_| ())
}

pub fn structured(data: &[u8]) -> Result<(), Failure> {
    if data.is_empty() {
        return Ok(());
    }
    let g = glue();
    let which = data[0] % 5;
    let mut case = Case::new(Choices::from_bytes(&data[1..]), &g.excluded, false);
    c08::pipeline_case(&mut case, "structured", which, &g.cfgs)
}

/// like `structured`, printing the generated texts first (debugging aid for artifacts)
pub fn structured_verbose(data: &[u8]) -> Result<(), Failure> {
    if data.is_empty() {
        return Ok(());
    }
    let g = glue();
    let which = data[0] % 5;
    let mut case = Case::new(Choices::from_bytes(&data[1..]), &g.excluded, true);
    let t0 = std::time::Instant::now();
    let t = c08::gen_texts(&mut case, which);
    println!("generated in {:?} (mode {})", t0.elapsed(), t.mode);
    for (p, s) in t.schema.iter().chain(t.ops.iter()) {
        println!("--- {} ({} bytes)\n{}", p.display(), s.len(), s);
    }
    let st: Vec<&str> = t.schema.iter().map(|x| x.1.as_str()).collect();
    let ot: Vec<&str> = t.ops.iter().map(|x| x.1.as_str()).collect();
    println!("work estimate: {}", c08::work_estimate_texts(&st, &ot, u64::MAX / 4));
    let t1 = std::time::Instant::now();
    let r = c08::run_pipeline(&t.schema, &t.ops, &g.cfgs[0], &Value::Null).map(|r| println!("reached {r:?}"));
    println!("pipeline in {:?}", t1.elapsed());
    r
}
