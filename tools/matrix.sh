#!/bin/bash
# tools/matrix.sh [out]   full sensitivity matrix: every seeded change (seeded/<id>/patch.diff, against the property
# in its meta.json) and every own mutation (mutations/*.diff, property = file name prefix) through tools/mutate.sh.
# /repo must be clean and must not be touched while this runs. Replay files written by mutated runs are removed.
cd /verif
OUT=${1:-tools/matrix_last.txt}
TMP=$(mktemp)
STAMP=$(mktemp)
for d in seeded/*/; do
  id=$(basename "$d"); p=${id%%-*}
  echo "== seeded/$id" >> "$TMP"
  tools/mutate.sh "$d/patch.diff" "$p" >> "$TMP" 2>&1
done
for f in mutations/*.diff; do
  b=$(basename "$f" .diff); p=$(echo "${b%%_*}" | tr a-z A-Z)
  echo "== mutations/$b" >> "$TMP"
  tools/mutate.sh "$f" "$p" >> "$TMP" 2>&1
done
mv "$TMP" "$OUT"
find replays -type f -newer "$STAMP" -delete 2>/dev/null; rm -f "$STAMP"
echo "caught: $(grep -c CAUGHT "$OUT")  missed: $(grep -c MISSED "$OUT")  other: $(grep -c 'INCONCLUSIVE\|does not apply\|refusing' "$OUT")"
