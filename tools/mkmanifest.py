#!/usr/bin/env python3
"""Regenerates /verif/MANIFEST.json from the table below (kept next to the checks so it stays current)."""
import json, os

CHECKS = {
 # id: (category, technique, level text, level note, design ref)
 "C11": ("exploration",
         "property-based testing (proptest choice vectors) against a reference merge + metamorphic permutation",
         "Generated multisets of definitions/extensions of all seven kinds (any order, 1-4 files, random trivia) are resolved by nitrogql and compared per (kind,name) with an independent reference merge; error iff duplicate/orphan with the position at an offending item; permutation/redistribution metamorphic relation. A sixth of the cases are large documents (dozens of filler definitions around the interesting ones). Sampling, not proof: bounds are <=6 definitions + <=6 extensions per case (plus fillers). Second campaign cli-merge on the built CLI: valid definitions-plus-extensions schemas over 2-4 files (a built-in scalar may be extended) or one resolution fault in a chosen file; exit 0, or exit 1 with a diagnostic in a file holding an offending item.",
         "Trusts the harness renderer/AST-to-model converter (self-checked: every generated text must parse). Definition order in the output is not compared.",
         "DESIGN.md §4 C11"),
 "C20": ("exploration",
         "bounded-exhaustive enumeration + property-based testing against a reference path model",
         "All pairs of absolute file paths over {x,y,.,..} to depth 5 (exhaustive, both tiers), normalisation exhaustive to depth 7, random pairs to depth 12; oracle is a reference stack normaliser and an independent interpreter of the produced relative path, plus the repo resolver as inverse. Layouts campaign on the built CLI: generated projects (diverging/re-converging directory trees, output stems with extra dots, operation files in nested directories with equal base names connected by variously spelled #import paths); generate must succeed, every relative module specifier of the declaration files must denote the generated schema module and every source-map source an input file.",
         "POSIX paths; A and B are files that can coexist (neither an ancestor directory of the other); paths climbing above the root are outside the statement.",
         "DESIGN.md §4 C20"),
}
PLANNED = {}
ALL = [f"C{n:02d}" for n in range(1, 21)]

def main():
    here = os.path.dirname(os.path.abspath(__file__))
    extra = os.path.join(here, "manifest_table.json")
    table = dict(CHECKS)
    if os.path.exists(extra):
        for k, v in json.load(open(extra)).items():
            table[k] = tuple(v)
    checks = []
    for pid in ALL:
        if pid not in table:
            continue
        cat, tech, text, note, ref = table[pid]
        checks.append({
            "property_id": pid,
            "quick_cmd": f"./check {pid} --tier quick",
            "thorough_cmd": f"./check {pid} --tier thorough",
            "evidence_file": f"/verif/evidence/{pid}.json",
            "replay_cmd_template": f"./check {pid} --replay {{path}}",
            "engine": "vh-loader" if pid in ("C14","C19") else "vh",
            "level_claimed": {"category": cat, "text": text, "design_ref": ref},
            "level_note": note,
            "technique": tech,
        })
    na = [{"property_id": p, "reason": "check not built yet in this round (designed in DESIGN.md §4; claimed once its harness exists)"}
          for p in ALL if p not in table]
    m = {
        "version": 1,
        "setup_cmd": "./check --setup",
        "hooks": {
            "guard": "nitrogql_verif",
            "enable": "none needed: the harness links the library crates by path, drives the CLI as a process and the loader ABI natively; the guard name is reserved",
            "baseline_off_cmd": "cd /repo && cargo test --workspace --no-fail-fast --offline",
            "source_commits": [],
            "add_only": True,
        },
        "engines": [
            {"name": "vh-loader", "path": "/verif/harness/vh-loader", "serves_properties": [c["property_id"] for c in checks if c["engine"] == "vh-loader"],
             "kind_free_text": "Rust binary linking the graphql-loader crate's exported C ABI natively (loader-native re-exports /repo/crates/graphql-loader/src/main.rs as a lib); parent/worker processes so aborts are observed; same runner, evidence and known-findings plumbing as vh; ASan build on nightly for the thorough tier"},
            {"name": "vh", "path": "/verif/harness/vh", "serves_properties": [c["property_id"] for c in checks if c["engine"] == "vh"],
             "kind_free_text": "Rust binary: proptest TestRunner over choice vectors (sharded over threads), bounded-exhaustive enumerators, reference models/interpreters as oracles; evidence, replay and known-findings plumbing"},
        ],
        "checks": checks,
        "notes": "Every check is `./check <id> --tier quick|thorough`; it rebuilds the harness (path dependencies on /repo/crates/*) and, where needed, the nitrogql-cli binary from /repo's working tree into /verif/target. Exit 0 held / 1 VIOLATION / 2 inconclusive (watchdog, build failure, harness self-test). VERIF_SEED selects the PRNG seed. Known findings live in /verif/known_findings.json.",
        "not_applicable": na,
    }
    json.dump(m, open("/verif/MANIFEST.json", "w"), indent=1)
    print("wrote MANIFEST.json with", len(checks), "checks;", len(na), "not claimed")

main()
