#!/bin/bash
# tools/mutate.sh <patch.diff> <Cxx> [<Cxx>...]   apply a mutation to /repo, run quick checks, restore.
# Prints for each property: CAUGHT / MISSED. Never leaves /repo modified.
set -u
PATCH="$(readlink -f "$1")"; shift
cd /repo
if ! git diff --quiet; then echo "repo dirty, refusing"; exit 2; fi
if ! git apply "$PATCH"; then echo "patch does not apply: $PATCH"; exit 2; fi
trap 'git -C /repo checkout -- . >/dev/null 2>&1' EXIT
for P in "$@"; do
  # sensitivity runs only need the verdict: cap shrinking
  OUT=$(cd /verif && VH_SHRINK_ITERS=${VH_SHRINK_ITERS:-150} ./check "$P" --tier quick 2>&1)
  RC=$?
  # evidence written by a mutated run must not stay
  if echo "$OUT" | grep -q "^VIOLATION property=$P"; then echo "$(basename "$PATCH") $P CAUGHT ($(echo "$OUT" | grep -m1 'failure\[' | cut -c1-160))";
  elif [ $RC -eq 2 ]; then echo "$(basename "$PATCH") $P INCONCLUSIVE/BUILD ($(echo "$OUT" | tail -2 | tr '\n' ' ' | cut -c1-200))";
  else echo "$(basename "$PATCH") $P MISSED"; fi
done
git -C /repo checkout -- . >/dev/null 2>&1
(cd /verif && git checkout -- evidence 2>/dev/null)
exit 0
