#!/usr/bin/env python3
import json,sys
d=json.load(open(sys.argv[1]))
print(d['signature']); print(d['message'])
dd=d['detail']
def show(x,ind=0):
    pass
if 'status' in dd:
    print('status',dd['status']); print('STDERR:',dd.get('stderr')); print('STDOUT:',dd.get('stdout'))
    inner=dd.get('detail',{})
    print('faults',json.dumps(inner.get('faults')), inner.get('command'), inner.get('format'))
    for f in inner.get('files',[]):
        if len(sys.argv)>2 and sys.argv[2] in f['path']:
            print('----',f['path']); print(f['text'])
else:
    print(json.dumps(dd,indent=1)[:4000])
