#!/bin/bash
# usage: tools/runall.sh [tier] [ids...]   runs the claimed checks sequentially, validates evidence
cd /verif
tier=${1:-quick}; shift
ids=${@:-$(python3 -c "import json;print(' '.join(c['property_id'] for c in json.load(open('MANIFEST.json'))['checks']))")}
rc=0
for id in $ids; do
  s=$(date +%s)
  out=$(./check $id --tier $tier 2>&1); code=$?
  e=$(date +%s)
  echo "$id exit=$code wall=$((e-s))s $(echo "$out" | grep -c '^KNOWN-FINDING') known; $(echo "$out" | grep -E '^(VIOLATION|RESULT)' | tr '\n' ' ')"
  [ $code -ne 0 ] && rc=1
done
python3-vt - <<'PY'
import json, jsonschema, glob
s=json.load(open('/root/.vp/EVIDENCE.schema.json'))
for f in sorted(glob.glob('/verif/evidence/*.json')):
    try:
        jsonschema.validate(json.load(open(f)), s)
    except Exception as e:
        print('EVIDENCE INVALID', f, str(e)[:200])
print('evidence validated')
PY
exit $rc
