#!/bin/bash
# tools/fuzz.sh <target|all> [runs] [seed]      coverage-guided part of C08 (libFuzzer via cargo-fuzz, ASan, -O)
# Fixed work (-runs), fresh corpus seeded from harness/fuzz/seeds/<target>, oracle inside the target
# (vh::fuzzglue). Prints `VIOLATION property=C08 replay=<artifact>` and exits 1 when libFuzzer saves
# a crash/timeout artifact that reproduces in a second, fresh process; exits 2 when the engine cannot
# be built or an artifact does not reproduce; 0 otherwise. Summary lines: FUZZ target=.. execs=.. cov=..
set -u
export CARGO_NET_OFFLINE=true
# leaks are not part of C08 (and the harness keeps global caches): no LeakSanitizer report at exit
export ASAN_OPTIONS=detect_leaks=0
T="${1:-all}"; RUNS="${2:-200000}"; SEED="${3:-${VERIF_SEED:-0}}"
# libFuzzer treats -seed=0 as "random": remap
LSEED=$(( (SEED % 2147483000) + 1 ))
TD=/verif/target/fuzz
mkdir -p /verif/work /verif/replays/C08 /verif/replays/C07
cd /verif/harness || exit 2
if [ "$T" = all ]; then TARGETS="parse_op parse_schema pipeline structured config json_schema"; else TARGETS="$T"; fi
PROP="${VH_FUZZ_PROPERTY:-C08}"
mkdir -p "/verif/replays/$PROP"
LOG=/verif/work/fuzz-build.$$.log
if ! cargo +nightly fuzz build -O --fuzz-dir fuzz --target-dir "$TD" >"$LOG" 2>&1; then
  echo "FUZZ-BUILD-FAILED (see below)"; tail -30 "$LOG"; rm -f "$LOG"; exit 2
fi
rm -f "$LOG"
BIN="$TD/x86_64-unknown-linux-gnu/release"
rc=0
pids=()
NT=$(echo $TARGETS | wc -w)
# several independent libFuzzer processes per target (different seeds, own corpus copies): J = cores / targets
J=${VH_FUZZ_JOBS:-$(( $(nproc) / NT ))}; [ "$J" -lt 1 ] && J=1; [ "$J" -gt 8 ] && J=8
for t in $TARGETS; do
 for j in $(seq 1 $J); do
  (
    C=/verif/work/fuzz-corpus-$t-$$-$j; rm -rf "$C"; mkdir -p "$C"
    L=/verif/work/fuzz-$t-$$-$j.log
    [ -d fuzz/seeds/$t ] && cp fuzz/seeds/$t/* "$C"/ 2>/dev/null
    # parse_diff and print_roundtrip start from the seeds of both parser targets
    if [ "$t" = parse_diff ] || [ "$t" = print_roundtrip ]; then cp fuzz/seeds/parse_op/* fuzz/seeds/parse_schema/* "$C"/ 2>/dev/null; fi
    A=/verif/replays/$PROP/fuzz-$t-
    # fixed work per target, scaled by its speed (structured: ~150 exec/s, loader_history: ~300, pipeline: ~1.5k, parsers: ~6k),
    # divided over the J processes
    case $t in structured) R=$((RUNS/20));; pipeline) R=$((RUNS/4));; loader_history) R=$((RUNS/8));; *) R=$RUNS;; esac
    R=$(( (R + J - 1) / J ))
    ML=8192; [ "$t" = json_schema ] && ML=16384
    "$BIN/$t" "$C" -runs="$R" -seed="$((LSEED + 7919 * (j - 1)))" -len_control=0 -max_len=$ML -timeout=30 -rss_limit_mb=4096 -detect_leaks=0 \
        -artifact_prefix="$A" -print_final_stats=1 >"$L" 2>&1
    code=$?
    execs=$(grep -E "stat::number_of_executed_units" "$L" | awk '{print $2}')
    cov=$(grep -E " cov: " "$L" | tail -1 | sed -E 's/.* cov: ([0-9]+).*/\1/')
    corp=$(ls "$C" | wc -l)
    echo "FUZZ target=$t job=$j execs=${execs:-?} cov=${cov:-?} corpus=$corp exit=$code"
    if [ $code -ne 0 ]; then
      art=$(grep -E "Test unit written to" "$L" | tail -1 | awk '{print $NF}')
      grep -E "FUZZ-FAILURE|ERROR: |SUMMARY" "$L" | head -5
      if [ -n "$art" ] && [ -f "$art" ]; then
        # reproduce in a fresh process, strict mode (no known-finding tolerance is needed: tolerated
        # failures never abort)
        if "$BIN/$t" "$art" -timeout=30 >/dev/null 2>&1; then
          echo "INCONCLUSIVE property=$PROP fuzz artifact did not reproduce: $art"; echo 2 > /verif/work/fuzz-rc-$t-$$-$j
        else
          echo "  failure[fuzz-$t] $(grep -m1 FUZZ-FAILURE "$L" | cut -c1-300)"
          echo "VIOLATION property=$PROP replay=$art"; echo 1 > /verif/work/fuzz-rc-$t-$$-$j
        fi
      else
        echo "INCONCLUSIVE property=$PROP libFuzzer exited with $code without an artifact (target $t)"; echo 2 > /verif/work/fuzz-rc-$t-$$-$j
      fi
    fi
    rm -rf "$C" "$L"
  ) &
  pids+=($!)
 done
done
for p in "${pids[@]}"; do wait $p; done
for f in /verif/work/fuzz-rc-*-$$-*; do
  [ -f "$f" ] || continue
  r=$(cat "$f"); rm -f "$f"
  if [ "$r" = 1 ]; then rc=1; elif [ $rc -eq 0 ]; then rc=2; fi
done
exit $rc
