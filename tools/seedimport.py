#!/usr/bin/env python3
"""tools/seedimport.py <round> <srcroot>   confirm sub-agent deliverables (<srcroot>/Cxx/out/k) with tools/seedverify.sh and
store the confirmed ones as /verif/seeded/Cxx-r<round>-k/ (patch.diff, demo.sh, helper files, meta.json)."""
import json, os, shutil, subprocess, sys, glob
rnd, root = sys.argv[1], sys.argv[2]
only = set(sys.argv[3:])
head = subprocess.check_output(['git', '-C', '/repo', 'rev-parse', '--short', 'HEAD']).decode().strip()
for d in sorted(glob.glob(f'{root}/C*/out/[0-9]')):
    prop = d.split('/')[-3]; k = d.split('/')[-1]
    if only and prop not in only:
        continue
    sid = f'{prop}-r{rnd}-{k}'
    dst = f'/verif/seeded/{sid}'
    if os.path.exists(dst):
        print('exists', sid); continue
    if not os.path.exists(f'{d}/patch.diff') or not os.path.exists(f'{d}/demo.sh'):
        print('incomplete', sid); continue
    out = subprocess.run(['/verif/tools/seedverify.sh', d], capture_output=True, text=True).stdout.strip().splitlines()
    line = out[-1] if out else ''
    print(line, flush=True)
    if not line.endswith('CONFIRMED'):
        continue
    os.makedirs(dst)
    for f in os.listdir(d):
        if os.path.isfile(f'{d}/{f}') and f != 'meta.json':
            shutil.copy(f'{d}/{f}', f'{dst}/{f}')
    try:
        m = json.load(open(f'{d}/meta.json'))
    except Exception:
        m = {}
    meta = {
        'id': sid, 'property': prop, 'round': int(rnd),
        'origin': 'fresh sub-agent given only the property text, one-line summaries of the earlier rounds\' seeded changes for this property (to avoid repeats), a list of angles not used much yet, and a scratch git worktree of /repo (nothing from /verif)',
        'what_it_changes': m.get('summary', ''),
        'needs_to_manifest': m.get('needs_to_manifest', ''),
        'violating_input': m.get('violating_input', ''),
        'expected_vs_actual': m.get('expected_vs_actual', ''),
        'why_existing_tests_pass': m.get('why_tests_pass', ''),
        'confirmed_by_me': {'at_repo_commit': head, 'how': 'tools/seedverify.sh in a scratch worktree (/tmp/sv/wt): demo.sh on the clean tree, git apply patch.diff, cargo test --workspace --no-fail-fast --offline (215 pass, 0 fail), demo.sh on the patched tree, revert',
                            'result': line.split(' ', 2)[2].rsplit(' => ', 1)[0] if line else '', 'verdict': 'CONFIRMED'},
        'sub_agent_commands': m.get('commands_run', []),
    }
    json.dump(meta, open(f'{dst}/meta.json', 'w'), indent=1, ensure_ascii=False)
