#!/usr/bin/env python3
"""Regenerate the tables of DESIGN.md sections 9.1 (fixed) and 9.2 (open) from known_findings.json."""
import json, re
K = json.load(open('/verif/known_findings.json'))['findings']
WHY = {
 'C07-block-string-raw': 'cooking block strings changes insta snapshots of the existing suite (parser definition tests, graphql printer, schema type printer descriptions), which must pass unedited',
 'C07-bare-union': 'grammar change plus AST/printer support for member-less unions; not local',
 'C07-bare-object': 'grammar change plus builder support for body-less object types; not local',
 'C16-print-string-escape': 'tried in a scratch worktree: escaping `"` and `\\` in print_string makes two snapshot tests of the existing suite fail (introspection::read_introspection, semantics::introspection_to_ast pin the unescaped output), and the suite must pass unedited',
 'C16-print-multiline-string': 'depends on block-string cooking (C07-block-string-raw)',
 'C16-print-extend-union-directives': 'the snapshot test parser::definition::union_definition pins the current text (`extend union XYZ @xyz =`)',
 'C01-merged-key-variable-condition': 'needs a redesign of merge_selection_trees (branches are paired by type name only)',
 'C18-rdjson-command-error-unlocated': 'needs a new shape for command-level errors in the rdjson writer',
 'C08-merge-conflict-panic': 'needs the FieldsInSetCanMerge validation rule in the checker (a new rule, not a local patch)',
 'C08-introspection-invalid-schema-unchecked': 'needs a decision by the maintainers: running the type-system checker on server-provided schemas changes what `check` accepts (servers that deviate from the specification in ways nitrogql tolerates today would be rejected), its diagnostics have no source positions there, and the reserved-name rule has to be exempted for the meta types; the part that is a plain consistency error of the file (references to unlisted types) was repaired (4cbe66a)',
 'C08-generate-exponential-nested-merge': 'the branch expansion of the operation type printer is exponential by design; a fix is a redesign of how @skip/@include branches are enumerated',
}
def esc(s): return s.replace('|', '\\|').replace('\n', ' ')
fixed = ['| finding | property | commit | what failed |', '|---|---|---|---|']
opened = ['| finding | property | why not repaired here | what fails |', '|---|---|---|---|']
for f in K:
    if f['status'] == 'fixed':
        fixed.append(f"| {f['id']} | {f['property']} | {f.get('commit','')} | {esc(f['what_fails'])} |")
    else:
        assert f['id'] in WHY, f['id']
        opened.append(f"| {f['id']} | {f['property']} | {esc(WHY[f['id']])} | {esc(f['what_fails'])} |")
p = '/verif/DESIGN.md'
s = open(p).read()
def repl(s, header_re, table):
    m = re.search(header_re + r'[^\n]*\n\n', s)
    assert m, header_re
    start = m.end()
    end = s.index('\n\n', start)
    return s[:start] + '\n'.join(table) + s[end:]
s = repl(s, r'### 9\.1 ', fixed)
s = repl(s, r'### 9\.2 ', opened)
open(p, 'w').write(s)
print(len(fixed) - 2, 'fixed;', len(opened) - 2, 'open')
