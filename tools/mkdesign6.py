#!/usr/bin/env python3
"""Regenerate the round-3 and round-4 tables of DESIGN.md section 6 from seeded/*-r<n>-*/meta.json,
tools/round<n>_first_run.txt (first run of the round) and tools/matrix_last.txt (latest full matrix; for round 4 also
tools/round4_second_run.txt, the re-run of the first-run misses)."""
import json, glob, os, re

def parse(path, rnd):
    res, cur = {}, None
    if not os.path.exists(path):
        return res
    for l in open(path):
        l = l.rstrip('\n')
        m = re.match(r'== (?:seeded/)?(C\d\d)[-/](?:r\d-)?(\d)$', l) or re.match(r'== (?:seeded/)?(C\d\d)-r(\d)-(\d)$', l)
        if l.startswith('== '):
            cur = None
            m1 = re.match(r'== (C\d\d)/(\d)$', l)
            m2 = re.match(r'== (?:seeded/)?(C\d\d-r\d-\d)$', l)
            m3 = re.match(r'== (?:seeded/)?(C\d\d-\d)$', l)
            if m1: cur = f'{m1.group(1)}-r{rnd}-{m1.group(2)}'
            elif m2: cur = m2.group(1)
            elif m3: cur = m3.group(1)
        elif cur and ('CAUGHT' in l or 'MISSED' in l):
            res[cur] = 'caught' if 'CAUGHT' in l else 'missed'
    return res

def esc(s): return s.replace('|', '\\|').replace('\n', ' ')

now = parse('/verif/tools/matrix_last.txt', 0)
p = '/verif/DESIGN.md'
s = open(p).read()
for rnd in (3, 4, 5, 6):
    first = parse(f'/verif/tools/round{rnd}_first_run.txt', rnd)
    second = parse(f'/verif/tools/round{rnd}_second_run.txt', rnd)
    rows = ['| id | seeded change (sub-agent\'s summary) | needs to manifest | first run | now |', '|---|---|---|---|---|']
    for d in sorted(glob.glob(f'/verif/seeded/*-r{rnd}-*')):
        m = json.load(open(os.path.join(d, 'meta.json')))
        i = m['id']
        n = now.get(i) or second.get(i) or ('caught' if first.get(i) == 'caught' else '?')
        rows.append(f"| {i} | {esc(m['what_it_changes'][:230])} | {esc(m['needs_to_manifest'][:200])} | {first.get(i,'?')} | {n} |")
    b, e = f'<!-- round{rnd}-table-begin -->\n', f'<!-- round{rnd}-table-end -->'
    if b not in s:
        continue
    i, j = s.index(b) + len(b), s.index(e)
    s = s[:i] + '\n'.join(rows) + '\n' + s[j:]
    print('round', rnd, len(rows) - 2, 'rows; first-run caught', sum(1 for v in first.values() if v == 'caught'))
open(p, 'w').write(s)
