#!/usr/bin/env python3
"""Regenerate the round-3 table of DESIGN.md section 6 from seeded/*-r3-*/meta.json, tools/round3_first_run.txt
(first run, checks as they stood after round 2) and tools/matrix_last.txt (latest full matrix)."""
import json, glob, os, re
first = {}
cur = None
for l in open('/verif/tools/round3_first_run.txt'):
    l = l.rstrip('\n')
    m = re.match(r'== (C\d\d)/(\d)', l)
    if m:
        cur = f'{m.group(1)}-r3-{m.group(2)}'
    elif cur and ('CAUGHT' in l or 'MISSED' in l):
        first[cur] = 'caught' if 'CAUGHT' in l else 'missed'
now = {}
cur = None
for l in open('/verif/tools/matrix_last.txt'):
    m = re.match(r'== seeded/(\S+)', l)
    if m:
        cur = m.group(1)
    elif l.startswith('== '):
        cur = None
    elif cur and ('CAUGHT' in l or 'MISSED' in l):
        now[cur] = 'caught' if 'CAUGHT' in l else 'missed'
# changes that are violations of another property than the one they were written for (see the text of section 6)
CROSS = {
 'C12-r3-1': 'caught by C13 and by C12 since the loader/CLI graphs got double back-references',
 'C20-r3-2': 'caught by C13 (loader route) and C20',
}
def esc(s): return s.replace('|', '\\|').replace('\n', ' ')
rows = ['| id | seeded change (sub-agent\'s summary) | needs to manifest | first run | now |', '|---|---|---|---|---|']
for d in sorted(glob.glob('/verif/seeded/*-r3-*')):
    m = json.load(open(os.path.join(d, 'meta.json')))
    i = m['id']
    n = now.get(i, '?')
    rows.append(f"| {i} | {esc(m['what_it_changes'][:230])} | {esc(m['needs_to_manifest'][:200])} | {first.get(i,'?')} | {n} |")
p = '/verif/DESIGN.md'
s = open(p).read()
b, e = '<!-- round3-table-begin -->\n', '<!-- round3-table-end -->'
i, j = s.index(b) + len(b), s.index(e)
s = s[:i] + '\n'.join(rows) + '\n' + s[j:]
open(p, 'w').write(s)
print(len(rows) - 2, 'rows; first-run caught', sum(1 for v in first.values() if v == 'caught'), 'now caught', sum(1 for k, v in now.items() if '-r3-' in k and v == 'caught'))
