#!/bin/bash
# tools/lanes.sh <lanes> <out> [filter]   full sensitivity matrix in <lanes> parallel lanes (default 4).
# Each lane is a private copy under /tmp/mx<k>: a git worktree of /repo, a copy of /verif/harness whose path
# dependencies, CLI path and VERIF root point into the lane, and its own target directory. /repo and /verif are not
# touched (except for reading), so work in /verif can go on while this runs. Per item: apply the patch to the lane's
# repo, rebuild CLI + harness + loader, run the quick check(s) of the property the way ./check does, revert.
# Items: seeded/<id>/patch.diff (property = id prefix) and mutations/<prop>_*.diff; [filter] is a grep pattern on the item name.
set -u
N=${1:-4}; OUT=${2:-/verif/tools/matrix_last.txt}; FILTER=${3:-.}
cd /verif
ITEMS=$( (for d in seeded/*/; do echo "seeded/$(basename $d)"; done; for f in mutations/*.diff; do echo "mutations/$(basename $f .diff)"; done) | grep -E "$FILTER")
HEAD=$(git -C /repo rev-parse HEAD)
lane() {
  k=$1; L=/tmp/mx$k; shift
  if [ ! -d $L/repo ]; then mkdir -p $L; git -C /repo worktree add --detach $L/repo $HEAD >/dev/null 2>&1; fi
  git -C $L/repo checkout -q --detach $HEAD; git -C $L/repo reset -q --hard
  mkdir -p $L/verif/work $L/verif/evidence $L/verif/replays
  rsync -a --delete --exclude target /verif/harness/ $L/verif/harness/
  cp /verif/known_findings.json $L/verif/
  find $L/verif/harness -name Cargo.toml | xargs sed -i "s#\"/repo/#\"$L/repo/#g"
  sed -i "s#/verif/target/repo/release/nitrogql-cli#$L/verif/target/repo/release/nitrogql-cli#; " $L/verif/harness/vh/src/cli.rs
  sed -i "s#pub const VERIF: &str = \"/verif\";#pub const VERIF: \&str = \"$L/verif\";#" $L/verif/harness/vh/src/runner.rs
  grep -rl '"/repo/' $L/verif/harness --include=*.rs --include=*.toml | xargs -r sed -i "s#\"/repo/#\"$L/repo/#g"
  cp /repo/Cargo.lock $L/verif/harness/Cargo.lock 2>/dev/null
  export CARGO_NET_OFFLINE=true CARGO_TARGET_DIR=$L/verif/target VH_SHRINK_ITERS=150
  for it in "$@"; do
    if [[ $it == seeded/* ]]; then id=${it#seeded/}; P=${id%%-*}; patch=/verif/seeded/$id/patch.diff
    else b=${it#mutations/}; P=$(echo "${b%%_*}" | tr a-z A-Z); patch=/verif/mutations/$b.diff; fi
    git -C $L/repo reset -q --hard
    if ! git -C $L/repo apply "$patch" 2>/dev/null && ! git -C $L/repo apply -3 "$patch" 2>/dev/null; then echo "== $it"$'\n'"$P DOES-NOT-APPLY"; git -C $L/repo reset -q --hard; continue; fi
    log=$L/verif/work/build.log
    if ! ( cd $L/repo && cargo build --release --offline -q -p nitrogql-cli --target-dir $L/verif/target/repo ) >$log 2>&1 \
       || ! ( cd $L/verif/harness && cargo build --release --offline -q -p vh -p vh-loader ) >>$log 2>&1; then
      echo "== $it"$'\n'"$P BUILD-FAILED ($(grep -m1 '^error' $log | cut -c1-120))"; continue
    fi
    out=""
    case $P in
      C14|C19) out=$(cd $L/verif && $L/verif/target/release/vh-loader $P --tier quick 2>&1) ;;
      C08|C12|C13) out=$(cd $L/verif && VH_EVIDENCE_PATH=$L/verif/work/$P.loader.json $L/verif/target/release/vh-loader $P --tier quick 2>&1; $L/verif/target/release/vh $P --tier quick 2>&1) ;;
      *) out=$(cd $L/verif && $L/verif/target/release/vh $P --tier quick 2>&1) ;;
    esac
    if echo "$out" | grep -q "^VIOLATION property=$P"; then echo "== $it"$'\n'"$P CAUGHT ($(echo "$out" | grep -m1 'failure\[' | cut -c1-150))"
    elif echo "$out" | grep -q "HARNESS-ERROR\|INCONCLUSIVE"; then echo "== $it"$'\n'"$P INCONCLUSIVE ($(echo "$out" | grep -m1 'HARNESS-ERROR\|INCONCLUSIVE' | cut -c1-150))"
    else echo "== $it"$'\n'"$P MISSED"; fi
    rm -rf $L/verif/replays/* $L/verif/work/c* 2>/dev/null
  done
  git -C $L/repo reset -q --hard
}
i=0; declare -a BUCKET
for it in $ITEMS; do BUCKET[$((i % N))]+=" $it"; i=$((i+1)); done
for k in $(seq 0 $((N-1))); do ( lane $k ${BUCKET[$k]} > $OUT.lane$k 2>&1 ) & done
wait
cat $OUT.lane* > $OUT; rm -f $OUT.lane*
echo "caught: $(grep -c CAUGHT $OUT)  missed: $(grep -c MISSED $OUT)  other: $(grep -c 'INCONCLUSIVE\|DOES-NOT-APPLY\|BUILD-FAILED' $OUT)"
