#!/bin/bash
# tools/seedverify.sh <src-dir with patch.diff demo.sh meta.json> 
# Confirms a seeded change in a scratch worktree of /repo HEAD (outside /repo and /verif):
#   demo passes on the clean tree; patch applies; the whole test suite passes with it; demo fails with it.
# Prints one line: SEED <dir> clean_demo=<rc> apply=<ok|fail> tests=<passed>/<failed> patched_demo=<rc> => CONFIRMED|REJECTED
set -u
SRC="$(cd "$1" && pwd)"
WT=${SV_WT:-/tmp/sv/wt}
SVD=$(dirname "$WT")
export CARGO_NET_OFFLINE=true
mkdir -p "$SVD"
if [ ! -d "$WT" ]; then git -C /repo worktree add --detach "$WT" HEAD >/dev/null 2>&1 || { echo "cannot create worktree"; exit 2; }; fi
git -C "$WT" checkout -q --detach "$(git -C /repo rev-parse HEAD)" 2>/dev/null
git -C "$WT" reset -q --hard; git -C "$WT" clean -fdq crates
( cd "$SRC" && bash ./demo.sh "$WT" ) >$SVD/clean_demo.log 2>&1; C=$?
git -C "$WT" reset -q --hard; git -C "$WT" clean -fdq crates
if git -C "$WT" apply "$SRC/patch.diff" 2>$SVD/apply.log || git -C "$WT" apply -3 "$SRC/patch.diff" 2>>$SVD/apply.log; then A=ok; else A=fail; fi
T="-"; P="-"
if [ $A = ok ]; then
  ( cd "$WT" && cargo test --workspace --no-fail-fast --offline ) >$SVD/tests.log 2>&1
  pass=$(grep -E "^test result:" $SVD/tests.log | sed -E 's/.* ([0-9]+) passed.*/\1/' | paste -sd+ | bc)
  fail=$(grep -E "^test result:" $SVD/tests.log | sed -E 's/.* ([0-9]+) failed.*/\1/' | paste -sd+ | bc)
  grep -q "error: could not compile\|error\[E" $SVD/tests.log && fail="compile-error"
  T="$pass/$fail"
  ( cd "$SRC" && bash ./demo.sh "$WT" ) >$SVD/patched_demo.log 2>&1; P=$?
fi
git -C "$WT" reset -q --hard; git -C "$WT" clean -fdq crates
V=REJECTED
if [ "$C" = 0 ] && [ $A = ok ] && [ "$T" = "215/0" ] && [ "$P" != 0 ] && [ "$P" != "-" ]; then V=CONFIRMED; fi
echo "SEED $SRC clean_demo=$C apply=$A tests=$T patched_demo=$P => $V"
